#![feature(allocator_api)]
#![allow(clippy::too_many_lines, clippy::type_complexity)]

mod ast;
mod cli;
mod drive;
mod engine;
mod findings;
mod gen_prog;
mod playground;
mod props;
mod refsem;
mod util;

use std::time::{Duration, Instant};

use serde_json::{Value as J, json};

use engine::Tier;

fn usage() -> ! {
    eprintln!("usage: vh check <ID> <quick|thorough> | vh worker <ID> <tier> | vh replay <ID> <file> | vh sizes <ID> <tier>");
    std::process::exit(2)
}

fn parse_tier(s: &str) -> Tier {
    match s {
        "quick" => Tier::Quick,
        "thorough" => Tier::Thorough,
        _ => usage(),
    }
}

fn main() {
    let args: Vec<String> = std::env::args().collect();
    if args.len() < 2 {
        usage();
    }
    match args[1].as_str() {
        "worker" if args.len() == 4 => engine::worker_main(&args[2], parse_tier(&args[3])),
        "check" if args.len() == 4 => {
            let code = check(&args[2], parse_tier(&args[3]));
            std::process::exit(code);
        }
        "sizes" if args.len() == 4 => {
            let spaces = props::spaces(&args[2], parse_tier(&args[3]));
            let mut total = 0;
            for s in &spaces {
                println!("{:>14}  {:<8} {}", s.size(), s.profile().dir(), s.id());
                total += s.size();
            }
            println!("{total:>14}  total");
        }
        "show" if args.len() == 6 => {
            // vh show <ID> <tier> <space-index> <case-index>
            let spaces = props::spaces(&args[2], parse_tier(&args[3]));
            let sp: usize = args[4].parse().unwrap();
            let i: u64 = args[5].parse().unwrap();
            println!("{}", spaces[sp].describe(i));
        }
        "front" if args.len() == 3 => {
            // vh front <file>: the C07 front-end checks on one text
            drive::install_panic_hook();
            let ctx = drive::Ctx::new();
            let text = std::fs::read_to_string(&args[2]).expect("read file");
            let t0 = Instant::now();
            println!("{:?} in {:?}", drive::front_total(&ctx, &text), t0.elapsed());
        }
        "solo" if args.len() == 3 => props::c14::solo_main(args[2].parse().unwrap()),
        "replay" if args.len() == 4 => {
            let code = replay(&args[2], &args[3]);
            std::process::exit(code);
        }
        _ => usage(),
    }
}

fn wall_cap(tier: Tier) -> Duration {
    let default = match tier {
        Tier::Quick => 600,
        Tier::Thorough => 4 * 3600,
    };
    Duration::from_secs(
        std::env::var("VERIF_WALL_CAP_S").ok().and_then(|s| s.parse().ok()).unwrap_or(default),
    )
}

fn check(prop: &str, tier: Tier) -> i32 {
    let t0 = Instant::now();
    let root = util::verif_root();
    let meta = props::meta(prop, tier);
    let spaces = props::spaces(prop, tier);
    if spaces.is_empty() {
        eprintln!("no spaces for {prop}");
        return 2;
    }
    if prop == "C16" {
        // executions are latency-bound (the runner really sleeps 1 ms per poll): oversubscribe
        engine::OVERSUBSCRIBE.store(3, std::sync::atomic::Ordering::SeqCst);
    }
    let report = engine::run_spaces(prop, tier, &spaces, wall_cap(tier));

    // ---- verdict
    let findings = findings::Findings::load();
    for (fid, n) in &report.known {
        let what = findings.get(fid).map(|f| f.what_fails.clone()).unwrap_or_default();
        println!("KNOWN-FINDING: property={prop} {fid}: {what} ({n} case(s) this run)");
    }
    let replay_dir = root.join("replays").join(prop);
    let _ = std::fs::create_dir_all(&replay_dir);
    let mut printed = std::collections::BTreeSet::new();
    for v in &report.unknown {
        let sig = v["signature"].as_str().unwrap_or("");
        let class = v["class"].as_str().unwrap_or("");
        let h = util::fnv64(format!("{class}\n{sig}").as_bytes());
        let path = replay_dir.join(format!("{h:016x}.json"));
        if printed.insert(h) && printed.len() <= 25 {
            let sp = v["space"].as_u64().unwrap_or(0) as usize;
            let body = json!({"property": prop, "tier": tier.as_str(), "space": spaces[sp].id(),
                "space_index": sp, "case_index": v["i"], "class": class,
                "input": v["input"], "signature": sig, "detail": v["detail"]});
            let _ = std::fs::write(&path, serde_json::to_string_pretty(&body).unwrap());
            println!("VIOLATION property={prop} replay={}", path.display());
            println!("  class: {class}");
            let inp = v["input"].as_str().unwrap_or("");
            println!("  input: {}", inp.chars().take(300).collect::<String>().replace('\n', "\\n"));
        }
    }
    if report.unknown_total > printed.len() as u64 {
        println!(
            "  … {} unlisted violation(s) in total ({} distinct shown)",
            report.unknown_total,
            printed.len().min(25)
        );
    }
    for e in &report.machinery_errors {
        eprintln!("MACHINERY-ERROR: {e}");
    }

    // ---- evidence
    let evaluations: u64 = report.spaces.iter().map(|s| s.visited).sum();
    let space_size: u64 = report.spaces.iter().map(|s| s.size).sum();
    let nontrivial: u64 = report.spaces.iter().map(|s| s.nontrivial).sum();
    // a case that stopped at its own time budget (reported through the counter) is a cap too
    let mut report = report;
    if let Some(n) = report.counters.get("cases_stopped_at_time_budget").copied().filter(|n| *n > 0) {
        report.caps_hit.push(format!("{n} case(s) stopped at their exploration time budget (see outcome classes CAPPED…)"));
    }
    let exhaustive = evaluations == space_size && report.caps_hit.is_empty();
    let mut samples: Vec<J> = Vec::new();
    for s in &report.spaces {
        for x in s.samples.iter().take(if s.size <= 40 { 40 } else { 2 }) {
            samples.push(json!({"space": s.id, "case": x}));
        }
    }
    let mut outcomes: std::collections::BTreeMap<String, u64> = Default::default();
    for s in &report.spaces {
        for (k, v) in &s.classes {
            *outcomes.entry(k.clone()).or_insert(0) += v;
        }
    }
    let spaces_j: Vec<J> = report
        .spaces
        .iter()
        .map(|s| {
            json!({"id": s.id, "size": s.size, "visited": s.visited, "nontrivial": s.nontrivial,
                "duplicate_texts": s.dup, "profile": s.profile, "outcomes": s.classes})
        })
        .collect();
    let mut coverage = json!({
        "evaluations": evaluations,
        "distinct_nontrivial": nontrivial,
        "rule": meta.rule,
        "samples": samples,
        "exhaustive": exhaustive,
        "space_size": space_size,
        "visited": evaluations,
        "spaces": spaces_j,
        "distinct_outcomes": outcomes.len(),
        "outcomes": outcomes,
        "counters": report.counters,
        "known_findings_hit": report.known,
        "caps_hit": report.caps_hit,
        "explanation": meta.explanation,
        "jobs": engine::jobs(),
    });
    if meta.level == "model_checking" {
        let states = report.counters.get("states").copied().unwrap_or(0);
        let transitions = report.counters.get("transitions").copied().unwrap_or(0);
        let traces = report.counters.get("traces_validated_against_impl").copied().unwrap_or(0);
        coverage["states"] = json!(states);
        coverage["transitions"] = json!(transitions);
        coverage["traces_validated_against_impl"] = json!(traces);
    }
    // which source tree this run was built from (a dirty tree means a mutant / seeded change was applied)
    let git = |args: &[&str]| -> String {
        std::process::Command::new("git").arg("-C").arg(util::repo_root()).args(args).output()
            .map(|o| String::from_utf8_lossy(&o.stdout).trim().to_string()).unwrap_or_default()
    };
    coverage["subject"] = json!({"path": util::repo_root(), "head": git(&["rev-parse", "HEAD"]),
        "dirty_files": git(&["status", "--porcelain", "--untracked-files=no"]).lines().map(|l| l.trim().to_string()).collect::<Vec<_>>()});
    let evidence = json!({
        "property_id": prop,
        "tier": tier.as_str(),
        "seed": util::seed(),
        "level": meta.level,
        "coverage": coverage,
        "assumptions": meta.assumptions,
        "wall_s": t0.elapsed().as_secs_f64(),
        "violations": report.unknown_total,
    });
    // runs against a deliberately broken tree (mutants/, seeded/) write their evidence elsewhere
    let ev_dir = root.join(std::env::var("VERIF_EVIDENCE_DIR").unwrap_or_else(|_| "evidence".into()));
    let _ = std::fs::create_dir_all(&ev_dir);
    let ev_path = ev_dir.join(format!("{prop}.json"));
    if let Err(e) = std::fs::write(&ev_path, serde_json::to_string_pretty(&evidence).unwrap()) {
        eprintln!("MACHINERY-ERROR: cannot write evidence: {e}");
        return 2;
    }
    // the deepest run of each property is kept next to the latest one (quick runs overwrite
    // evidence/<id>.json, never evidence/thorough/<id>.json)
    if tier == Tier::Thorough {
        let tdir = ev_dir.join("thorough");
        let _ = std::fs::create_dir_all(&tdir);
        let _ = std::fs::write(tdir.join(format!("{prop}.json")), serde_json::to_string_pretty(&evidence).unwrap());
    }
    println!(
        "{prop} {}: {} cases over {} space(s) in {:.1}s, nontrivial {}, known-finding hits {}, violations {}{}",
        tier.as_str(),
        evaluations,
        report.spaces.len(),
        t0.elapsed().as_secs_f64(),
        nontrivial,
        report.known.values().sum::<u64>(),
        report.unknown_total,
        if exhaustive { "" } else { " (NOT exhaustive: cap hit or cases lost)" }
    );
    if !report.machinery_errors.is_empty() {
        return 2;
    }
    if report.unknown_total > 0 {
        return 1;
    }
    if evaluations != space_size && report.caps_hit.is_empty() {
        eprintln!("MACHINERY-ERROR: visited {evaluations} of {space_size} cases without a cap");
        return 2;
    }
    0
}

fn replay(prop: &str, file: &str) -> i32 {
    let Ok(text) = std::fs::read_to_string(file) else {
        eprintln!("cannot read {file}");
        return 2;
    };
    let Ok(j) = serde_json::from_str::<J>(&text) else {
        eprintln!("bad json in {file}");
        return 2;
    };
    let tier = parse_tier(j["tier"].as_str().unwrap_or("quick"));
    let spaces = props::spaces(prop, tier);
    let sid = j["space"].as_str().unwrap_or("");
    let Some(space) = spaces.iter().find(|s| s.id() == sid) else {
        eprintln!("space {sid} not found");
        return 2;
    };
    drive::install_panic_hook();
    let mut ctx = drive::Ctx::new();
    let input = j["input"].as_str().unwrap_or("");
    println!("replaying {prop} space={sid} class={}", j["class"]);
    println!("input: {input}");
    if let Some(r) = space.replay(&mut ctx, input) {
        println!("{}", serde_json::to_string_pretty(&r).unwrap());
        return i32::from(r["violation"].as_bool().unwrap_or(false));
    }
    let Some(i) = j["case_index"].as_u64() else {
        eprintln!("no case index and space has no text replay");
        return 2;
    };
    let out = space.run(&mut ctx, i);
    println!("outcome class: {}", out.class);
    for v in &out.violations {
        println!("VIOLATION class={} detail={}", v.class, v.detail);
    }
    i32::from(!out.violations.is_empty())
}
