//! Reference semantics: an independent scope resolver and a deliberately boring tree-walking
//! interpreter over the harness AST. Shares no code with the implementation; every rule is
//! traceable to docs/*.md or is an adopted convention listed in DESIGN.md Appendix C.

use std::collections::{HashMap, HashSet};

use crate::ast::{E, Op, S, SP};
use crate::drive::TV;

#[derive(Clone, Debug, PartialEq)]
pub enum V {
    N(f64),
    S(String),
    B(bool),
    Z,
    A(Vec<V>),
}

impl V {
    pub fn tv(&self) -> TV {
        match self {
            V::N(n) => TV::num(*n),
            V::S(s) => TV::s(s),
            V::B(b) => TV::B(*b),
            V::Z => TV::Z,
            V::A(v) => TV::A(v.iter().map(V::tv).collect()),
        }
    }
    pub fn type_name(&self) -> &'static str {
        match self {
            V::N(_) => "number",
            V::S(_) => "string",
            V::B(_) => "boolean",
            V::Z => "null",
            V::A(_) => "array",
        }
    }
    /// printed form (shout / to_string / placeholders)
    pub fn show(&self) -> String {
        match self {
            V::N(n) => format!("{n}"),
            V::S(s) => s.clone(),
            V::B(b) => format!("{b}"),
            V::Z => "null".into(),
            V::A(items) => {
                let parts: Vec<String> = items
                    .iter()
                    .map(|x| match x {
                        V::S(s) => format!("\"{s}\""),
                        o => o.show(),
                    })
                    .collect();
                format!("[{}]", parts.join(", "))
            }
        }
    }
}

// ---------------------------------------------------------------------------------------
// static side: scope resolution and the documented static rules
// ---------------------------------------------------------------------------------------

#[derive(Clone, Debug, PartialEq, Eq, Hash)]
pub enum Rule {
    UndeclaredVar(String),
    AssignUndeclared(String),
    UndeclaredFunc(String),
    Arity(String),
    BreakOutsideLoop,
    NextOutsideLoop,
    ReturnOutsideFunction,
    DuplicateFunction(String),
    DuplicateParam(String),
    ReservedName(String),
}

pub type DeclId = u32;
pub type FuncId = u32;

#[derive(Clone, Debug)]
pub enum RE {
    Num(f64),
    Str(Vec<RSP>),
    Bool(bool),
    Null,
    Var(DeclId),
    Bin(Op, Box<RE>, Box<RE>),
    Not(Box<RE>),
    Neg(Box<RE>),
    Arr(Vec<RE>),
    Idx(Box<RE>, Box<RE>),
    CallUser(FuncId, Vec<RE>),
    CallGlobal(String, Vec<RE>),
    Meth(Box<RE>, String, Vec<RE>),
    /// something the resolver could not bind (only in ill-formed programs)
    Unbound,
}

#[derive(Clone, Debug)]
pub enum RSP {
    Lit(String),
    Var(DeclId),
}

#[derive(Clone, Debug)]
pub enum RS {
    Make(DeclId, Option<RE>),
    Set(DeclId, RE),
    SetIdx(RE, RE),
    If(RE, RBlock, Option<RBlock>),
    Loop(RE, RBlock),
    Block(RBlock),
    FuncDef,
    Ret(Option<RE>),
    Break,
    Next,
    Expr(RE),
    Unbound,
}

#[derive(Clone, Debug, Default)]
pub struct RBlock {
    pub stmts: Vec<RS>,
    /// functions defined directly in this block (hoisted at entry)
    pub funcs: Vec<FuncId>,
}

#[derive(Clone, Debug)]
pub struct RFunc {
    pub name: String,
    pub params: Vec<DeclId>,
    pub body: RBlock,
}

#[derive(Debug, Default)]
pub struct Resolution {
    pub rules: Vec<Rule>,
    /// constructs whose binding the documentation does not settle (see Appendix C): a use
    /// that precedes a later declaration of the same name in an enclosing block
    pub ambiguous: bool,
    pub root: RBlock,
    pub funcs: Vec<RFunc>,
    pub decl_count: u32,
}

const GLOBALS: &[(&str, usize)] =
    &[("shout", 1), ("typeof", 1), ("read_line", 1), ("to_string", 1), ("command", 1)];

pub fn is_global(name: &str) -> bool {
    GLOBALS.iter().any(|(n, _)| *n == name)
}

struct Scope {
    vars: HashMap<String, DeclId>,
    /// names declared by `make` anywhere directly in this block (used to flag ambiguity)
    later: HashSet<String>,
    funcs: HashMap<String, (FuncId, usize)>,
}

struct Res {
    scopes: Vec<Scope>,
    out: Resolution,
    in_loop: u32,
    in_func: u32,
}

pub fn resolve(prog: &[S]) -> Resolution {
    let mut r = Res { scopes: vec![], out: Resolution::default(), in_loop: 0, in_func: 0 };
    let root = r.block(prog, None);
    r.out.root = root;
    r.out
}

impl Res {
    fn new_decl(&mut self) -> DeclId {
        self.out.decl_count += 1;
        self.out.decl_count - 1
    }

    fn lookup_var(&mut self, name: &str) -> Option<DeclId> {
        for sc in self.scopes.iter().rev() {
            if let Some(&d) = sc.vars.get(name) {
                return Some(d);
            }
            if sc.later.contains(name) {
                // declared later in this block: which binding a use before it sees is not
                // settled by the documentation
                self.out.ambiguous = true;
            }
        }
        None
    }

    fn lookup_func(&self, name: &str) -> Option<(FuncId, usize)> {
        self.scopes.iter().rev().find_map(|sc| sc.funcs.get(name).copied())
    }

    fn block(&mut self, stmts: &[S], params: Option<(&[String], &mut Vec<DeclId>)>) -> RBlock {
        // a function's parameters live in a scope of their own around the body block
        if let Some((ps, ids)) = params {
            let mut sc = Scope { vars: HashMap::new(), later: HashSet::new(), funcs: HashMap::new() };
            let mut seen = HashSet::new();
            for p in ps {
                if is_global(p) {
                    self.out.rules.push(Rule::ReservedName(p.clone()));
                }
                if !seen.insert(p.clone()) {
                    self.out.rules.push(Rule::DuplicateParam(p.clone()));
                }
                let d = self.new_decl();
                sc.vars.insert(p.clone(), d);
                ids.push(d);
            }
            self.scopes.push(sc);
            let b = self.block(stmts, None);
            self.scopes.pop();
            return b;
        }
        let mut sc = Scope { vars: HashMap::new(), later: HashSet::new(), funcs: HashMap::new() };
        for s in stmts {
            if let S::Make(v, _) = s {
                sc.later.insert(v.clone());
            }
        }
        // functions are visible throughout their block: pre-declare
        let mut rb = RBlock::default();
        let mut fids = Vec::new();
        for s in stmts {
            if let S::Func(name, ps, _) = s {
                if is_global(name) {
                    self.out.rules.push(Rule::ReservedName(name.clone()));
                }
                if sc.funcs.contains_key(name) {
                    self.out.rules.push(Rule::DuplicateFunction(name.clone()));
                    fids.push(None);
                    continue;
                }
                let fid = self.out.funcs.len() as FuncId;
                self.out.funcs.push(RFunc { name: name.clone(), params: vec![], body: RBlock::default() });
                sc.funcs.insert(name.clone(), (fid, ps.len()));
                rb.funcs.push(fid);
                fids.push(Some(fid));
            }
        }
        self.scopes.push(sc);
        let mut fi = 0;
        for s in stmts {
            let rs = match s {
                S::Func(_, ps, body) => {
                    let fid = fids[fi];
                    fi += 1;
                    // the body is resolved at the position of the definition statement
                    let (l, f) = (self.in_loop, self.in_func);
                    self.in_loop = 0;
                    self.in_func += 1;
                    let mut ids = Vec::new();
                    let b = self.block(body, Some((ps, &mut ids)));
                    self.in_loop = l;
                    self.in_func = f;
                    if let Some(fid) = fid {
                        self.out.funcs[fid as usize].params = ids;
                        self.out.funcs[fid as usize].body = b;
                    }
                    RS::FuncDef
                }
                other => self.stmt(other),
            };
            rb.stmts.push(rs);
        }
        self.scopes.pop();
        rb
    }

    fn stmt(&mut self, s: &S) -> RS {
        match s {
            S::Make(v, e) => {
                if is_global(v) {
                    self.out.rules.push(Rule::ReservedName(v.clone()));
                }
                // the initialiser is evaluated before the name is (re)bound
                let re = e.as_ref().map(|e| self.expr(e));
                let cur = self.scopes.last_mut().unwrap();
                let d = if let Some(&d) = cur.vars.get(v) {
                    d
                } else {
                    self.out.decl_count += 1;
                    let d = self.out.decl_count - 1;
                    self.scopes.last_mut().unwrap().vars.insert(v.clone(), d);
                    d
                };
                // from here on the name is declared in this block
                self.scopes.last_mut().unwrap().later.remove(v);
                // (a second `make` of the same name later in the block rebinds the same
                // variable: no ambiguity for uses in between)
                RS::Make(d, re)
            }
            S::Set(v, e) => {
                let d = self.lookup_var(v);
                let re = self.expr(e);
                match d {
                    Some(d) => RS::Set(d, re),
                    None => {
                        self.out.rules.push(Rule::AssignUndeclared(v.clone()));
                        RS::Unbound
                    }
                }
            }
            S::SetIdx(t, e) => {
                let rt = self.expr(t);
                let re = self.expr(e);
                RS::SetIdx(rt, re)
            }
            S::If(c, t, e) => {
                let rc = self.expr(c);
                let rt = self.block(t, None);
                let re = e.as_ref().map(|e| self.block(e, None));
                RS::If(rc, rt, re)
            }
            S::Loop(c, b) => {
                let rc = self.expr(c);
                self.in_loop += 1;
                let rb = self.block(b, None);
                self.in_loop -= 1;
                RS::Loop(rc, rb)
            }
            S::Block(b) => RS::Block(self.block(b, None)),
            S::Func(..) => unreachable!(),
            S::Ret(e) => {
                if self.in_func == 0 {
                    self.out.rules.push(Rule::ReturnOutsideFunction);
                }
                RS::Ret(e.as_ref().map(|e| self.expr(e)))
            }
            S::Break => {
                if self.in_loop == 0 {
                    self.out.rules.push(Rule::BreakOutsideLoop);
                }
                RS::Break
            }
            S::Next => {
                if self.in_loop == 0 {
                    self.out.rules.push(Rule::NextOutsideLoop);
                }
                RS::Next
            }
            S::Expr(e) => RS::Expr(self.expr(e)),
        }
    }

    fn expr(&mut self, e: &E) -> RE {
        match e {
            E::Num(n) => RE::Num(n.parse::<f64>().unwrap_or(f64::NAN)),
            E::Str(parts) => RE::Str(
                parts
                    .iter()
                    .map(|p| match p {
                        SP::Lit(t) => RSP::Lit(t.clone()),
                        SP::Var(v) => match self.lookup_var(v) {
                            Some(d) => RSP::Var(d),
                            None => {
                                self.out.rules.push(Rule::UndeclaredVar(v.clone()));
                                RSP::Lit(String::new())
                            }
                        },
                    })
                    .collect(),
            ),
            E::Bool(b) => RE::Bool(*b),
            E::Null => RE::Null,
            E::Var(v) => match self.lookup_var(v) {
                Some(d) => RE::Var(d),
                None => {
                    self.out.rules.push(Rule::UndeclaredVar(v.clone()));
                    RE::Unbound
                }
            },
            E::Bin(op, a, b) => {
                let ra = self.expr(a);
                let rb = self.expr(b);
                RE::Bin(*op, Box::new(ra), Box::new(rb))
            }
            E::Not(x) => RE::Not(Box::new(self.expr(x))),
            E::Neg(x) => RE::Neg(Box::new(self.expr(x))),
            E::Paren(x) => self.expr(x),
            E::Arr(items) => RE::Arr(items.iter().map(|x| self.expr(x)).collect()),
            E::Idx(a, i) => {
                let ra = self.expr(a);
                let ri = self.expr(i);
                RE::Idx(Box::new(ra), Box::new(ri))
            }
            E::Call(f, args) => {
                let rargs: Vec<RE> = args.iter().map(|x| self.expr(x)).collect();
                if let Some((_, ar)) = GLOBALS.iter().find(|(n, _)| n == f) {
                    if *ar != args.len() {
                        self.out.rules.push(Rule::Arity(f.clone()));
                    }
                    RE::CallGlobal(f.clone(), rargs)
                } else if let Some((fid, ar)) = self.lookup_func(f) {
                    if ar != args.len() {
                        self.out.rules.push(Rule::Arity(f.clone()));
                    }
                    RE::CallUser(fid, rargs)
                } else {
                    self.out.rules.push(Rule::UndeclaredFunc(f.clone()));
                    RE::Unbound
                }
            }
            E::Meth(r, m, args) => {
                let rr = self.expr(r);
                let rargs: Vec<RE> = args.iter().map(|x| self.expr(x)).collect();
                RE::Meth(Box::new(rr), m.clone(), rargs)
            }
        }
    }
}

// ---------------------------------------------------------------------------------------
// dynamic side
// ---------------------------------------------------------------------------------------

#[derive(Clone, Debug, PartialEq)]
pub enum RefEnd {
    Normal,
    /// runtime error, by the implementation's own kind string (obtained at run time)
    Error(&'static str),
    /// the documentation does not define this run (reason); never a ground for a verdict
    Unspecified(&'static str),
}

#[derive(Clone, Debug)]
pub struct RefObs {
    pub out: Vec<TV>,
    pub end: RefEnd,
    pub steps: u64,
    pub max_depth: u32,
}

pub struct ErrKinds {
    pub div0: &'static str,
    pub oob: &'static str,
    pub invalid_index: &'static str,
    pub stack: &'static str,
}

pub fn err_kinds() -> ErrKinds {
    use naijascript::diagnostics::AsStr;
    use naijascript::runtime::RuntimeErrorKind as K;
    ErrKinds {
        div0: K::DivisionByZero.as_str(),
        oob: K::IndexOutOfBounds.as_str(),
        invalid_index: K::InvalidIndex.as_str(),
        stack: K::StackOverflow.as_str(),
    }
}

pub const DEEP: &str = "recursion beyond the reference depth budget (infinite by construction)";

enum Stop {
    Err(&'static str),
    Unspec(&'static str),
}

enum Flow {
    Go,
    Ret(V),
    Break,
    Next,
}

struct Frame {
    vars: HashMap<DeclId, V>,
    funcs: Vec<(FuncId, usize)>, // (function, defining frame)
    parent: Option<usize>,
}

pub struct Interp<'a> {
    res: &'a Resolution,
    frames: Vec<Frame>,
    out: Vec<TV>,
    steps: u64,
    depth: u32,
    max_depth: u32,
    kinds: ErrKinds,
    pub step_budget: u64,
    pub depth_budget: u32,
}

pub fn run(res: &Resolution) -> RefObs {
    let mut it = Interp {
        res,
        frames: Vec::new(),
        out: Vec::new(),
        steps: 0,
        depth: 0,
        max_depth: 0,
        kinds: err_kinds(),
        step_budget: 200_000,
        depth_budget: 200,
    };
    let end = match it.block(&res.root, None) {
        Ok(_) => RefEnd::Normal,
        Err(Stop::Err(k)) => RefEnd::Error(k),
        Err(Stop::Unspec(w)) => RefEnd::Unspecified(w),
    };
    RefObs { out: it.out, end, steps: it.steps, max_depth: it.max_depth }
}

impl Interp<'_> {
    fn tick(&mut self) -> Result<(), Stop> {
        self.steps += 1;
        if self.steps > self.step_budget { Err(Stop::Unspec("step budget")) } else { Ok(()) }
    }

    fn find_var(&self, mut f: usize, d: DeclId) -> Option<usize> {
        loop {
            if self.frames[f].vars.contains_key(&d) {
                return Some(f);
            }
            f = self.frames[f].parent?;
        }
    }

    fn find_func(&self, mut f: usize, id: FuncId) -> Option<usize> {
        loop {
            if let Some((_, env)) = self.frames[f].funcs.iter().find(|(x, _)| *x == id) {
                return Some(*env);
            }
            f = self.frames[f].parent?;
        }
    }

    fn block(&mut self, b: &RBlock, parent: Option<usize>) -> Result<Flow, Stop> {
        let me = self.frames.len();
        self.frames.push(Frame { vars: HashMap::new(), funcs: Vec::new(), parent });
        for &fid in &b.funcs {
            self.frames[me].funcs.push((fid, me));
        }
        for s in &b.stmts {
            match self.stmt(s, me)? {
                Flow::Go => {}
                other => return Ok(other),
            }
        }
        Ok(Flow::Go)
    }

    fn truthy(v: &V) -> Result<bool, Stop> {
        match v {
            V::B(b) => Ok(*b),
            V::Z => Ok(false),
            _ => Err(Stop::Unspec("non-boolean condition")),
        }
    }

    fn stmt(&mut self, s: &RS, f: usize) -> Result<Flow, Stop> {
        self.tick()?;
        match s {
            RS::Make(d, e) => {
                let v = match e {
                    Some(e) => self.eval(e, f)?,
                    None => V::Z,
                };
                self.frames[f].vars.insert(*d, v);
                Ok(Flow::Go)
            }
            RS::Set(d, e) => {
                let v = self.eval(e, f)?;
                let Some(fr) = self.find_var(f, *d) else {
                    return Err(Stop::Unspec("assignment before declaration executed"));
                };
                self.frames[fr].vars.insert(*d, v);
                Ok(Flow::Go)
            }
            RS::SetIdx(t, e) => {
                // right-hand side first, then the indices left to right (the generators keep
                // index expressions free of side effects, so the order is unobservable)
                let v = self.eval(e, f)?;
                let (d, idxs) = self.lvalue(t, f)?;
                let Some(fr) = self.find_var(f, d) else {
                    return Err(Stop::Unspec("use before declaration executed"));
                };
                let kinds = (self.kinds.oob, self.kinds.invalid_index);
                let mut slot = self.frames[fr].vars.get_mut(&d).unwrap();
                for (k, i) in idxs.iter().enumerate() {
                    let V::A(items) = slot else {
                        return Err(Stop::Unspec("index assignment into non-array"));
                    };
                    if *i >= items.len() {
                        return Err(Stop::Err(kinds.0));
                    }
                    if k + 1 == idxs.len() {
                        items[*i] = v;
                        return Ok(Flow::Go);
                    }
                    slot = &mut items[*i];
                }
                Err(Stop::Unspec("empty index chain"))
            }
            RS::If(c, t, e) => {
                let cv = self.eval(c, f)?;
                if Self::truthy(&cv)? {
                    self.block(t, Some(f))
                } else if let Some(e) = e {
                    self.block(e, Some(f))
                } else {
                    Ok(Flow::Go)
                }
            }
            RS::Loop(c, b) => {
                loop {
                    self.tick()?;
                    let cv = self.eval(c, f)?;
                    if !Self::truthy(&cv)? {
                        break;
                    }
                    match self.block(b, Some(f))? {
                        Flow::Break => break,
                        Flow::Go | Flow::Next => {}
                        r @ Flow::Ret(_) => return Ok(r),
                    }
                }
                Ok(Flow::Go)
            }
            RS::Block(b) => self.block(b, Some(f)),
            RS::FuncDef => Ok(Flow::Go),
            RS::Ret(e) => {
                let v = match e {
                    Some(e) => self.eval(e, f)?,
                    None => V::Z,
                };
                Ok(Flow::Ret(v))
            }
            RS::Break => Ok(Flow::Break),
            RS::Next => Ok(Flow::Next),
            RS::Expr(e) => {
                self.eval(e, f)?;
                Ok(Flow::Go)
            }
            RS::Unbound => Err(Stop::Unspec("ill-formed program")),
        }
    }

    /// index chain rooted at a variable → (decl, indices)
    fn lvalue(&mut self, t: &RE, f: usize) -> Result<(DeclId, Vec<usize>), Stop> {
        let mut chain = Vec::new();
        let mut cur = t;
        loop {
            match cur {
                RE::Idx(a, i) => {
                    chain.push(i.as_ref());
                    cur = a;
                }
                RE::Var(d) => {
                    chain.reverse();
                    let mut idxs = Vec::new();
                    for i in chain {
                        let iv = self.eval(i, f)?;
                        idxs.push(self.index_value(&iv)?);
                    }
                    return Ok((*d, idxs));
                }
                _ => return Err(Stop::Unspec("receiver is not a variable or index chain")),
            }
        }
    }

    fn index_value(&self, v: &V) -> Result<usize, Stop> {
        let V::N(n) = v else { return Err(Stop::Err(self.kinds.invalid_index)) };
        if !n.is_finite() || n.fract() != 0.0 {
            return Err(Stop::Err(self.kinds.invalid_index));
        }
        if *n < 0.0 {
            return Err(Stop::Err(self.kinds.oob));
        }
        if *n >= 1e15 {
            return Ok(usize::MAX);
        }
        Ok(*n as usize)
    }

    fn eval(&mut self, e: &RE, f: usize) -> Result<V, Stop> {
        self.tick()?;
        match e {
            RE::Num(n) => Ok(V::N(*n)),
            RE::Bool(b) => Ok(V::B(*b)),
            RE::Null => Ok(V::Z),
            RE::Str(parts) => {
                let mut s = String::new();
                for p in parts {
                    match p {
                        RSP::Lit(t) => s.push_str(t),
                        RSP::Var(d) => {
                            let Some(fr) = self.find_var(f, *d) else {
                                return Err(Stop::Unspec("use before declaration executed"));
                            };
                            s.push_str(&self.frames[fr].vars[d].show());
                        }
                    }
                }
                Ok(V::S(s))
            }
            RE::Var(d) => {
                let Some(fr) = self.find_var(f, *d) else {
                    return Err(Stop::Unspec("use before declaration executed"));
                };
                Ok(self.frames[fr].vars[d].clone())
            }
            RE::Bin(Op::And, a, b) => {
                let l = self.eval(a, f)?;
                if !Self::truthy(&l)? {
                    return Ok(V::B(false));
                }
                let r = self.eval(b, f)?;
                Ok(V::B(Self::truthy(&r)?))
            }
            RE::Bin(Op::Or, a, b) => {
                let l = self.eval(a, f)?;
                if Self::truthy(&l)? {
                    return Ok(V::B(true));
                }
                let r = self.eval(b, f)?;
                Ok(V::B(Self::truthy(&r)?))
            }
            RE::Bin(op, a, b) => {
                let l = self.eval(a, f)?;
                let r = self.eval(b, f)?;
                self.binop(*op, l, r)
            }
            RE::Not(x) => {
                let v = self.eval(x, f)?;
                Ok(V::B(!Self::truthy(&v)?))
            }
            RE::Neg(x) => match self.eval(x, f)? {
                V::N(n) => Ok(V::N(-n)),
                _ => Err(Stop::Unspec("minus on non-number")),
            },
            RE::Arr(items) => {
                let mut v = Vec::new();
                for it in items {
                    v.push(self.eval(it, f)?);
                }
                Ok(V::A(v))
            }
            RE::Idx(a, i) => {
                let av = self.eval(a, f)?;
                let iv = self.eval(i, f)?;
                let V::A(items) = av else { return Err(Stop::Unspec("index of non-array")) };
                let k = self.index_value(&iv)?;
                if k >= items.len() {
                    return Err(Stop::Err(self.kinds.oob));
                }
                Ok(items[k].clone())
            }
            RE::CallUser(fid, args) => {
                let mut vals = Vec::new();
                for a in args {
                    vals.push(self.eval(a, f)?);
                }
                let Some(env) = self.find_func(f, *fid) else {
                    return Err(Stop::Unspec("function not reachable lexically"));
                };
                let func = &self.res.funcs[*fid as usize];
                if func.params.len() != vals.len() {
                    return Err(Stop::Unspec("arity"));
                }
                self.depth += 1;
                self.max_depth = self.max_depth.max(self.depth);
                if self.depth > self.depth_budget {
                    // generated terminating recursions stay far below the budget, so this
                    // one is infinite: the implementation must report a stack overflow
                    return Err(Stop::Unspec(DEEP));
                }
                let pf = self.frames.len();
                self.frames.push(Frame { vars: HashMap::new(), funcs: Vec::new(), parent: Some(env) });
                for (d, v) in func.params.iter().zip(vals) {
                    self.frames[pf].vars.insert(*d, v);
                }
                let flow = self.block(&func.body, Some(pf));
                self.depth -= 1;
                match flow? {
                    Flow::Ret(v) => Ok(v),
                    Flow::Go => Ok(V::Z),
                    Flow::Break | Flow::Next => Err(Stop::Unspec("loop control escaped a function")),
                }
            }
            RE::CallGlobal(name, args) => {
                let mut vals = Vec::new();
                for a in args {
                    vals.push(self.eval(a, f)?);
                }
                match (name.as_str(), vals.as_slice()) {
                    ("shout", [v]) => {
                        self.out.push(v.tv());
                        Ok(V::Z)
                    }
                    ("typeof", [v]) => Ok(V::S(v.type_name().into())),
                    ("to_string", [v]) => Ok(V::S(v.show())),
                    _ => Err(Stop::Unspec("global not modelled")),
                }
            }
            RE::Meth(r, m, args) => self.method(r, m, args, f),
            RE::Unbound => Err(Stop::Unspec("ill-formed program")),
        }
    }

    fn binop(&self, op: Op, l: V, r: V) -> Result<V, Stop> {
        use V::{B, N, S, Z};
        Ok(match (op, l, r) {
            (Op::Add, N(a), N(b)) => N(a + b),
            (Op::Add, S(a), S(b)) => S(a + &b),
            (Op::Add, S(a), N(b)) => S(format!("{a}{b}")),
            (Op::Add, N(a), S(b)) => S(format!("{a}{b}")),
            (Op::Sub, N(a), N(b)) => N(a - b),
            (Op::Mul, N(a), N(b)) => N(a * b),
            (Op::Div, N(a), N(b)) => {
                if b == 0.0 {
                    return Err(Stop::Err(self.kinds.div0));
                }
                N(a / b)
            }
            (Op::Mod, N(a), N(b)) => {
                if b == 0.0 {
                    return Err(Stop::Err(self.kinds.div0));
                }
                N(a % b)
            }
            (Op::Eq, N(a), N(b)) => B((a - b).abs() <= 1e-12),
            (Op::Gt, N(a), N(b)) => B(a > b),
            (Op::Lt, N(a), N(b)) => B(a < b),
            (Op::Eq, S(a), S(b)) => B(a == b),
            (Op::Gt, S(a), S(b)) => B(a.as_bytes() > b.as_bytes()),
            (Op::Lt, S(a), S(b)) => B(a.as_bytes() < b.as_bytes()),
            (Op::Eq, B(a), B(b)) => B(a == b),
            (Op::Gt, B(a), B(b)) => B(a & !b),
            (Op::Lt, B(a), B(b)) => B(!a & b),
            (Op::Eq, Z, Z) => B(true),
            (Op::Eq | Op::Gt | Op::Lt, Z, _) | (Op::Eq | Op::Gt | Op::Lt, _, Z) => B(false),
            _ => return Err(Stop::Unspec("operator on operand types the documentation does not define")),
        })
    }

    fn method(&mut self, r: &RE, m: &str, args: &[RE], f: usize) -> Result<V, Stop> {
        // mutating array methods work on a variable or an index chain
        if matches!(m, "push" | "pop" | "reverse") {
            let arg = match (m, args) {
                ("push", [a]) => Some(self.eval(a, f)?),
                ("pop" | "reverse", []) => None,
                _ => return Err(Stop::Unspec("method arity")),
            };
            let (d, idxs) = self.lvalue(r, f)?;
            let Some(fr) = self.find_var(f, d) else {
                return Err(Stop::Unspec("use before declaration executed"));
            };
            let oob = self.kinds.oob;
            let mut slot = self.frames[fr].vars.get_mut(&d).unwrap();
            for i in idxs {
                let V::A(items) = slot else { return Err(Stop::Unspec("index into non-array")) };
                if i >= items.len() {
                    return Err(Stop::Err(oob));
                }
                slot = &mut items[i];
            }
            let V::A(items) = slot else { return Err(Stop::Unspec("array method on non-array")) };
            return Ok(match m {
                "push" => {
                    items.push(arg.unwrap());
                    V::Z
                }
                "pop" => items.pop().unwrap_or(V::Z),
                _ => {
                    items.reverse();
                    V::Z
                }
            });
        }
        let recv = self.eval(r, f)?;
        let mut vals = Vec::new();
        for a in args {
            vals.push(self.eval(a, f)?);
        }
        use V::{A, N, S};
        Ok(match (recv, m, vals.as_slice()) {
            (S(s), "len", []) => N(s.chars().count() as f64),
            (S(s), "slice", [N(a), N(b)]) => {
                if a.is_nan() || b.is_nan() {
                    return Err(Stop::Unspec("slice with NaN bound"));
                }
                let chars: Vec<char> = s.chars().collect();
                let len = chars.len() as f64;
                let norm = |x: f64| {
                    let fl = x.floor();
                    let v = if fl < 0.0 { fl + len } else { fl };
                    v.clamp(0.0, len) as usize
                };
                let (st, en) = (norm(*a), norm(*b));
                S(if st >= en { String::new() } else { chars[st..en].iter().collect() })
            }
            (S(s), "to_uppercase", []) => S(s.to_uppercase()),
            (S(s), "to_lowercase", []) => {
                if s.contains('Σ') {
                    return Err(Stop::Unspec("final sigma"));
                }
                S(s.to_lowercase())
            }
            (S(s), "find", [S(n)]) => {
                if !s.is_ascii() {
                    return Err(Stop::Unspec("find offset unit on non-ASCII haystack"));
                }
                N(s.find(n.as_str()).map_or(-1.0, |i| i as f64))
            }
            (S(s), "replace", [S(a), S(b)]) => S(s.replace(a.as_str(), b)),
            (S(s), "trim", []) => S(s.trim().to_string()),
            (S(s), "to_number", []) => {
                let t = s.as_str();
                let simple = !t.is_empty()
                    && t.chars().all(|c| c.is_ascii_digit() || c == '.' || c == '-')
                    && t.chars().filter(|c| *c == '.').count() <= 1
                    && t.chars().any(|c| c.is_ascii_digit())
                    && !t[1..].contains('-');
                if simple {
                    N(t.parse::<f64>().unwrap_or(f64::NAN))
                } else if t.chars().any(|c| c.is_ascii_digit()) || matches!(t.to_ascii_lowercase().trim_start_matches(['+', '-']), "inf" | "infinity" | "nan") {
                    return Err(Stop::Unspec("to_number spelling"));
                } else {
                    N(f64::NAN)
                }
            }
            (S(s), "split", [S(p)]) => A(s.split(p.as_str()).map(|x| S(x.to_string())).collect()),
            (N(n), "abs", []) => N(n.abs()),
            (N(n), "sqrt", []) => N(n.sqrt()),
            (N(n), "floor", []) => N(n.floor()),
            (N(n), "ceil", []) => N(n.ceil()),
            (N(n), "round", []) => N(n.round()),
            (A(items), "len", []) => N(items.len() as f64),
            (A(items), "join", [S(sep)]) => S(join(&items, sep)),
            _ => return Err(Stop::Unspec("method on receiver/arguments the documentation does not define")),
        })
    }
}

fn join(items: &[V], sep: &str) -> String {
    let parts: Vec<String> = items
        .iter()
        .map(|x| match x {
            V::S(s) => s.clone(),
            V::A(inner) => join(inner, sep),
            o => o.show(),
        })
        .collect();
    parts.join(sep)
}
