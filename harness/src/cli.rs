//! Running the shipped `naija` binary (built by ./check from /repo's working tree with the
//! repository's own dev and release profiles into /verif/target/repo).

use std::io::{Read, Write};
use std::path::PathBuf;
use std::process::{Command, Stdio};
use std::time::{Duration, Instant};

#[derive(Clone, Copy, PartialEq, Eq, Debug)]
pub enum Build {
    Dev,
    Release,
}

impl Build {
    pub fn name(self) -> &'static str {
        match self {
            Build::Dev => "dev",
            Build::Release => "release",
        }
    }
    pub fn path(self) -> PathBuf {
        crate::util::verif_root()
            .join("target/repo")
            .join(if self == Build::Dev { "debug" } else { "release" })
            .join("naija")
    }
}

#[derive(Debug, Clone)]
pub struct CliRun {
    pub code: Option<i32>,
    pub signal: Option<i32>,
    pub stdout: Vec<u8>,
    pub stderr: Vec<u8>,
    pub timed_out: bool,
    pub wall_ms: u128,
}

impl CliRun {
    pub fn crashed(&self) -> Option<String> {
        use std::os::unix::process::ExitStatusExt;
        let _ = std::process::ExitStatus::from_raw(0);
        if let Some(s) = self.signal {
            return Some(format!("killed by signal {s}"));
        }
        let err = String::from_utf8_lossy(&self.stderr);
        for needle in ["panicked at", "has overflowed its stack", "memory allocation of", "SIGSEGV", "internal error"] {
            if err.contains(needle) {
                let line = err.lines().find(|l| l.contains(needle)).unwrap_or("").chars().take(160).collect::<String>();
                return Some(format!("{needle}: {line}"));
            }
        }
        match self.code {
            Some(0) | Some(1) => None,
            other => Some(format!("exit status {other:?}")),
        }
    }
}

pub enum Input<'a> {
    File(&'a str),
    Eval(&'a str),
    Stdin(&'a str),
    /// the script arrives on stdin in several writes; each piece is written only when the
    /// previous one has been consumed (FIONREAD == 0), as an interactive producer would
    StdinPieces(&'a str, &'a [usize]),
}

fn scratch_dir() -> PathBuf {
    let d = crate::util::verif_root().join("target/tmp").join(format!("w{}", std::process::id()));
    let _ = std::fs::create_dir_all(&d);
    d
}

pub fn run(build: Build, input: Input<'_>, stdin_extra: Option<&[u8]>, timeout: Duration) -> CliRun {
    let mut cmd = Command::new(build.path());
    let mut feed: Option<Vec<u8>> = stdin_extra.map(<[u8]>::to_vec);
    let mut cuts: Vec<usize> = Vec::new();
    match input {
        Input::File(src) => {
            let f = scratch_dir().join("case.ns");
            std::fs::write(&f, src).expect("write case file");
            cmd.arg(f);
        }
        Input::Eval(src) => {
            cmd.arg("--eval").arg(src);
        }
        Input::Stdin(src) => {
            cmd.arg("-");
            feed = Some(src.as_bytes().to_vec());
        }
        Input::StdinPieces(src, c) => {
            cmd.arg("-");
            feed = Some(src.as_bytes().to_vec());
            cuts = c.to_vec();
        }
    }
    cmd.env("RUST_BACKTRACE", "0");
    // the property speaks about the default 8 MiB main-thread stack
    unsafe {
        use std::os::unix::process::CommandExt;
        cmd.pre_exec(|| {
            let mut lim = libc::rlimit { rlim_cur: 0, rlim_max: 0 };
            libc::getrlimit(libc::RLIMIT_STACK, &mut lim);
            lim.rlim_cur = (8u64 << 20).min(lim.rlim_max);
            libc::setrlimit(libc::RLIMIT_STACK, &lim);
            Ok(())
        });
    }
    cmd.stdin(if feed.is_some() { Stdio::piped() } else { Stdio::null() });
    cmd.stdout(Stdio::piped()).stderr(Stdio::piped());
    let t0 = Instant::now();
    let mut child = cmd.spawn().expect("spawn naija (was it built? ./check --build)");
    let writer = feed.map(|data| {
        let mut si = child.stdin.take().unwrap();
        std::thread::spawn(move || {
            use std::os::fd::AsRawFd;
            let fd = si.as_raw_fd();
            let mut prev = 0usize;
            let t0 = Instant::now();
            for c in cuts.iter().copied().chain(std::iter::once(data.len())) {
                if c <= prev || c > data.len() {
                    continue;
                }
                if si.write_all(&data[prev..c]).is_err() {
                    return;
                }
                prev = c;
                if c < data.len() {
                    // wait until the reader has taken this piece (bounded: a reader that
                    // stopped reading must not hang the harness)
                    loop {
                        let mut n: libc::c_int = 0;
                        unsafe { libc::ioctl(fd, libc::FIONREAD, &mut n) };
                        if n == 0 || t0.elapsed() > Duration::from_secs(10) {
                            break;
                        }
                        std::thread::yield_now();
                    }
                    // and has had the time to issue (and block in) its next read
                    std::thread::sleep(Duration::from_millis(3));
                }
            }
        })
    });
    let mut so = child.stdout.take().unwrap();
    let mut se = child.stderr.take().unwrap();
    let h1 = std::thread::spawn(move || {
        let mut v = Vec::new();
        let _ = so.read_to_end(&mut v);
        v
    });
    let h2 = std::thread::spawn(move || {
        let mut v = Vec::new();
        let _ = se.read_to_end(&mut v);
        v
    });
    let mut timed_out = false;
    let status = loop {
        match child.try_wait() {
            Ok(Some(s)) => break s,
            Ok(None) => {
                if t0.elapsed() > timeout {
                    timed_out = true;
                    let _ = child.kill();
                    break child.wait().expect("wait");
                }
                std::thread::sleep(Duration::from_millis(2));
            }
            Err(_) => break child.wait().expect("wait"),
        }
    };
    if let Some(w) = writer {
        let _ = w.join();
    }
    use std::os::unix::process::ExitStatusExt;
    CliRun {
        code: status.code(),
        signal: if timed_out { None } else { status.signal() },
        stdout: h1.join().unwrap_or_default(),
        stderr: h2.join().unwrap_or_default(),
        timed_out,
        wall_ms: t0.elapsed().as_millis(),
    }
}
