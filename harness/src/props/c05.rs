//! C05 — arrays are values (E1 over mutation histories, M0 vs reference whose arrays are
//! plain `Vec`s cloned at every read / store / pass / return).

use crate::ast::*;
use crate::drive::Ctx;
use crate::engine::{Outcome, Profile, PropMeta, Space, Tier};
use crate::gen_prog::{triple, Gen, seq_range};
use crate::props::refcmp::{self, CmpOpts};

pub fn meta(_tier: Tier) -> PropMeta {
    PropMeta {
        id: "C05",
        level: "exploration",
        rule: "every sequence (quick <= 3, thorough <= 4) of wrapped array operations over arrays a, b and \
               string s: copy, store in another array, push of numbers/strings/null/booleans/the array itself/ \
               nested arrays, pop, reverse, indexed and nested-indexed assignment in and out of range, push / \
               reverse through an index chain, mutation of a copy taken from an element, passing to a function \
               that mutates and returns its parameter, passing to one that only mutates its parameter; each \
               wrapped plain / in a block / in a 2-iteration loop / in a capturing function; afterwards all \
               variables are printed. Compared with the reference (M0, both profiles). Non-trivial = specified \
               and printing; distinct by program text"
            .into(),
        assumptions: vec![
            "pop() of an empty array is null; array printing as in Appendix C".into(),
            "bound: sequence length and the operation alphabet".into(),
        ],
        explanation: String::new(),
    }
}

fn ops() -> Vec<Vec<S>> {
    let a = || var("a");
    let b = || var("b");
    let s = || var("s");
    let e = |x: E| S::Expr(x);
    let base: Vec<Vec<S>> = vec![
        vec![set("b", a())],
        vec![set("a", b())],
        vec![set("b", E::Arr(vec![a(), a()]))],
        vec![e(meth(a(), "push", vec![num("1")]))],
        vec![e(meth(a(), "push", vec![s()]))],
        vec![e(meth(a(), "push", vec![bin(Op::Add, s(), st("!"))]))],
        vec![e(meth(a(), "push", vec![a()]))],
        vec![e(meth(a(), "push", vec![b()]))],
        vec![e(meth(b(), "push", vec![a()]))],
        vec![e(meth(a(), "push", vec![E::Arr(vec![E::Arr(vec![s()])])]))],
        vec![e(meth(a(), "push", vec![E::Null])), e(meth(a(), "push", vec![E::Bool(true)]))],
        vec![e(meth(a(), "pop", vec![]))],
        vec![shout(meth(a(), "pop", vec![]))],
        vec![e(meth(a(), "reverse", vec![]))],
        vec![e(meth(b(), "reverse", vec![]))],
        vec![S::SetIdx(idx(a(), num("0")), num("9"))],
        vec![S::SetIdx(idx(a(), num("0")), b())],
        vec![S::SetIdx(idx(a(), num("1")), s())],
        vec![S::SetIdx(idx(idx(a(), num("0")), num("0")), num("7"))],
        vec![S::SetIdx(idx(idx(b(), num("0")), num("1")), s())],
        vec![e(meth(idx(a(), num("0")), "push", vec![num("5")]))],
        vec![e(meth(idx(b(), num("1")), "reverse", vec![]))],
        vec![make("t", idx(a(), num("0"))), e(meth(var("t"), "push", vec![num("3")])), shout(var("t"))],
        vec![make("t", a()), S::SetIdx(idx(var("t"), num("0")), st("T")), shout(var("t"))],
        vec![set("b", call("mutret", vec![a()]))],
        vec![e(call("mutonly", vec![a()]))],
        vec![set("a", call("mutret", vec![a()]))],
        vec![set("s", meth(a(), "join", vec![st("|")]))],
        vec![set("s", E::Str(vec![SP::Var("a".into())]))],
        vec![shout(idx(a(), num("0")))],
        vec![S::SetIdx(idx(a(), num("5")), num("1"))],
        // one past the end, wherever the end is after the pushes / pops so far
        vec![S::SetIdx(idx(a(), meth(a(), "len", vec![])), num("8"))],
        vec![S::SetIdx(idx(idx(a(), num("0")), meth(idx(a(), num("0")), "len", vec![])), num("8"))],
        // a function that writes the captured `a` through an index, called from a function
        // that holds its own local named `a`
        vec![S::Func("shadowed".into(), vec![], vec![make("a", E::Arr(vec![E::Arr(vec![num("70")]), num("71")])), S::Expr(call("setg", vec![])), S::Expr(call("pushg", vec![])), shout(var("a"))]), S::Expr(call("shadowed", vec![]))],
        vec![S::Expr(call("setg", vec![]))],
        vec![S::Expr(call("pushg", vec![]))],
        // mutation of an array *parameter* inside a loop (its backing store grows on the frame)
        vec![set("b", call("pushloop", vec![a()]))],
        vec![set("a", call("pushloop", vec![E::Arr(vec![])]))],
        vec![shout(meth(call("pushloop", vec![b()]), "len", vec![]))],
    ];
    let mut out = Vec::new();
    for (k, op) in base.iter().enumerate() {
        out.push(op.clone());
        out.push(vec![S::Block(op.clone())]);
        let c = format!("i{k}");
        let mut body = op.clone();
        body.push(S::Set(c.clone(), bin(Op::Add, var(&c), num("1"))));
        out.push(vec![S::Make(c.clone(), Some(num("0"))), S::Loop(bin(Op::Lt, var(&c), num("2")), body)]);
        out.push(vec![S::Func(format!("w{k}"), vec![], op.clone()), S::Expr(call(&format!("w{k}"), vec![]))]);
    }
    out
}

fn programs(max_len: u32, core: bool) -> Gen<Vec<S>> {
    let all = ops();
    let all: Vec<Vec<S>> = if core { all.into_iter().step_by(4).collect() } else { all };
    seq_range(&Gen::of(all), 1, max_len).map(|seq| {
        let mut p = vec![
            make("a", E::Arr(vec![E::Arr(vec![num("1"), num("2")]), st("x")])),
            make("b", E::Arr(vec![num("0")])),
            make("s", st("str")),
            func("mutret", &["p"], vec![S::Expr(meth(var("p"), "push", vec![st("M")])), S::SetIdx(idx(var("p"), num("0")), st("R")), S::Ret(Some(var("p")))]),
            func("pushloop", &["p"], vec![
                make("k", num("0")),
                S::Loop(bin(Op::Lt, var("k"), num("5")), vec![S::Expr(meth(var("p"), "push", vec![bin(Op::Add, var("s"), var("k"))])), set("k", bin(Op::Add, var("k"), num("1")))]),
                S::Ret(Some(var("p"))),
            ]),
            func("setg", &[], vec![S::SetIdx(idx(var("a"), num("1")), st("G"))]),
            func("pushg", &[], vec![S::Expr(meth(idx(var("a"), num("0")), "push", vec![st("P")]))]),
            func("mutonly", &["p"], vec![S::Expr(meth(var("p"), "push", vec![st("O")])), S::Expr(meth(var("p"), "reverse", vec![]))]),
        ];
        for w in seq {
            p.extend(w);
        }
        p.push(shout(var("a")));
        p.push(shout(var("b")));
        p.push(shout(var("s")));
        p
    })
}

/// Arrays held by *activations*: a recursive function's local, its parameter, and its local as
/// captured by a nested function, mutated in place before and/or after the recursive call.
/// A mutation made by one activation must land in that activation's array only.
fn activations() -> Gen<Vec<S>> {
    // (target, mutation): target 0 = local `loc`, 1 = parameter `p`, 2 = `loc` through a nested function
    let mutate = |target: u8, m: u8| -> Vec<S> {
        if target == 2 {
            return vec![S::Expr(call(&format!("m{m}"), vec![]))];
        }
        let x = || var(if target == 0 { "loc" } else { "p" });
        mutation(x(), m)
    };
    let mut steps: Vec<Option<(u8, u8)>> = vec![None];
    for t in 0..3u8 {
        for m in 0..5u8 {
            steps.push(Some((t, m)));
        }
    }
    let steps = Gen::of(steps);
    let depth = Gen::of(vec![1u32, 2, 3]);
    triple(&steps, &steps, &depth, move |pre, post, d| {
        let mut body = vec![make("loc", E::Arr(vec![E::Arr(vec![var("n")]), bin(Op::Add, var("n"), num("0.5"))]))];
        for m in 0..5u8 {
            body.push(func(&format!("m{m}"), &[], mutation(var("loc"), m)));
        }
        if let Some((t, m)) = pre {
            body.extend(mutate(t, m));
        }
        body.push(S::If(
            bin(Op::Gt, var("n"), num("0")),
            vec![S::Expr(call("rec", vec![bin(Op::Sub, var("n"), num("1")), E::Arr(vec![E::Arr(vec![var("n")]), st("p")])]))],
            None,
        ));
        if let Some((t, m)) = post {
            body.extend(mutate(t, m));
        }
        body.push(shout(var("loc")));
        body.push(shout(var("p")));
        vec![func("rec", &["n", "p"], body), S::Expr(call("rec", vec![num(&d.to_string()), E::Arr(vec![E::Arr(vec![num("100")]), st("top")])]))]
    })
}

/// Arrays that start out *empty inside another array* and are filled later, in loop bodies and
/// functions (their backing store is first allocated long after the enclosing value was stored).
fn nested_empties(max_len: u32) -> Gen<Vec<S>> {
    let m = || var("m");
    let e = |x: E| S::Expr(x);
    let in_loop = |c: &str, body: Vec<S>| -> Vec<S> {
        let mut b = body;
        b.push(S::Set(c.to_string(), bin(Op::Add, var(c), num("1"))));
        vec![S::Make(c.to_string(), Some(num("0"))), S::Loop(bin(Op::Lt, var(c), num("2")), b)]
    };
    let ops: Vec<Vec<S>> = vec![
        vec![set("m", E::Arr(vec![E::Arr(vec![]), E::Arr(vec![]), E::Arr(vec![])]))],
        in_loop("i1", vec![e(meth(idx(m(), num("0")), "push", vec![bin(Op::Add, var("s"), st("!"))]))]),
        vec![e(call("fill", vec![num("1")]))],
        vec![set("m2", m()), e(meth(idx(var("m2"), num("0")), "push", vec![st("c")])), shout(var("m2"))],
        vec![e(meth(m(), "push", vec![E::Arr(vec![])]))],
        in_loop("i5", vec![e(meth(idx(m(), bin(Op::Sub, meth(m(), "len", vec![]), num("1"))), "push", vec![var("i5")]))]),
        in_loop("i6", vec![set("s", bin(Op::Add, var("s"), st("xxxxxxxx")))]),
        vec![set("m", call("id", vec![m()]))],
        vec![shout(m())],
        vec![S::SetIdx(idx(m(), num("2")), E::Arr(vec![]))],
        in_loop("i10", vec![e(meth(idx(m(), num("2")), "push", vec![E::Arr(vec![var("i10")])]))]),
        vec![e(call("fill", vec![num("0")])), e(call("fill", vec![num("2")]))],
    ];
    seq_range(&Gen::of(ops), 1, max_len).map(|seq| {
        let mut p = vec![
            make("m", E::Arr(vec![E::Arr(vec![]), E::Arr(vec![]), E::Arr(vec![])])),
            make("m2", E::Arr(vec![])),
            make("s", st("str")),
            func("id", &["p"], vec![S::Ret(Some(var("p")))]),
            func("fill", &["k"], vec![S::Expr(meth(idx(var("m"), var("k")), "push", vec![bin(Op::Add, st("f"), var("k"))])), make("junk", bin(Op::Add, var("s"), st("-junk")))]),
        ];
        for w in seq {
            p.extend(w);
        }
        p.push(shout(var("m")));
        p.push(shout(var("m2")));
        p
    })
}

fn mutation(x: E, m: u8) -> Vec<S> {
    match m {
        0 => vec![S::Expr(meth(x, "push", vec![var("n")]))],
        1 => vec![shout(meth(x, "pop", vec![]))],
        2 => vec![S::Expr(meth(x, "reverse", vec![]))],
        3 => vec![S::SetIdx(idx(x, num("0")), bin(Op::Mul, var("n"), num("10")))],
        _ => vec![S::Expr(meth(idx(x, num("0")), "push", vec![st("deep")]))],
    }
}

pub fn programs_for_c14() -> Gen<Vec<S>> {
    programs(2, false)
}

pub fn spaces(tier: Tier) -> Vec<Box<dyn Space>> {
    let t = tier == Tier::Thorough;
    let mut v: Vec<Box<dyn Space>> = Vec::new();
    v.push(Box::new(ArrSpace { id: "hist-all-le2".into(), generator: programs(2, false), profile: Profile::Poison }));
    v.push(Box::new(ArrSpace { id: "hist-core-le3".into(), generator: programs(3, true), profile: Profile::Poison }));
    if t {
        v.push(Box::new(ArrSpace { id: "hist-all-le3".into(), generator: programs(3, false), profile: Profile::Fast }));
    } else {
        v.push(Box::new(ArrSpace { id: "hist-all-le2".into(), generator: programs(2, false), profile: Profile::Fast }));
    }
    v.push(Box::new(ArrSpace { id: "activations".into(), generator: activations(), profile: Profile::Poison }));
    v.push(Box::new(ArrSpace { id: "nested-empties".into(), generator: nested_empties(if t { 5 } else { 4 }), profile: Profile::Poison }));
    v.push(Box::new(ArrSpace { id: "nested-empties".into(), generator: nested_empties(if t { 5 } else { 4 }), profile: Profile::Fast }));
    if t {
        v.push(Box::new(ArrSpace { id: "hist-core-le5".into(), generator: programs(5, true), profile: Profile::Fast }));
        v.push(Box::new(ArrSpace { id: "hist-core-le4".into(), generator: programs(4, true), profile: Profile::Poison }));
    } else {
        v.push(Box::new(ArrSpace { id: "hist-core-le4".into(), generator: programs(4, true), profile: Profile::Fast }));
    }
    v
}

struct ArrSpace {
    id: String,
    generator: Gen<Vec<S>>,
    profile: Profile,
}

impl Space for ArrSpace {
    fn id(&self) -> String {
        format!("{}-{}", self.id, self.profile.dir())
    }
    fn size(&self) -> u64 {
        self.generator.count
    }
    fn profile(&self) -> Profile {
        self.profile
    }
    fn chunk(&self) -> u64 {
        if self.profile == Profile::Poison { 256 } else { 4096 }
    }
    fn describe(&self, i: u64) -> String {
        print(&self.generator.nth(i))
    }
    fn run(&self, ctx: &mut Ctx, i: u64) -> Outcome {
        refcmp::compare(ctx, &self.generator.nth(i), &CmpOpts::default())
    }
}
