//! C08 — running out of depth is reported, not a native crash.
//! E1: shape families × depth grid (+ bisection to every switch point and a dense window
//! around it) × {dev, release} builds of the real `naija`, main thread, 8 MiB stack.

use std::time::Duration;

use serde_json::json;

use crate::cli::{self, Build, Input};
use crate::drive::{self, Ctx};
use crate::engine::{Outcome, Profile, PropMeta, Space, Tier, Violation};

pub fn meta(_tier: Tier) -> PropMeta {
    PropMeta {
        id: "C08",
        level: "exploration",
        rule: "each case is one (shape, build): the shape's program is generated for every depth of the \
               geometric grid 2^3..2^17 (thorough 2^20 for the cheap shapes), then for every adjacent pair of \
               grid points whose outcome class differs the exact switch point is located by bisection and every \
               depth in a +-48 (thorough +-64) window around it is run; every run is a subprocess of the real \
               naija (dev / release) on the main thread with RLIMIT_STACK = 8 MiB. Shapes: terminating recursion \
               of depth d (direct, with accumulation, mutual, through an if / jasi condition, through arguments \
               of a global and a method, through an index expression, an array literal, a string concatenation, \
               from inside 64 nested blocks, via a nested function), unbounded recursion, syntactic nesting \
               (parentheses, array literals, unary chains, right-nested and left-chained binaries, index chains, \
               method chains, bare member chains, nested call arguments, nested blocks / ifs / loops / function \
               definitions, else ladders) and data nested by a loop (built, copied, printed, compared). Oracle: \
               normal completion (with the right value for terminating recursions), or exit 1 with a runtime \
               `Stack overflow` or an ordinary diagnostic; never a signal or `has overflowed its stack`. \
               Non-trivial = the case observed at least two outcome classes (a switch point was located); \
               distinct by (shape, build)"
            .into(),
        assumptions: vec![
            "all depths cannot be enumerated: the claim is the grid plus the windows, assuming the outcome class is piecewise constant in the depth between probed points".into(),
            "memory exhaustion (`memory allocation of N bytes failed`) is reported as resource:memory and is not a C08 verdict".into(),
        ],
        explanation: String::new(),
    }
}

#[derive(Clone)]
struct Shape {
    name: &'static str,
    build: fn(usize) -> String,
    /// expected printed line for terminating runs (None = not checked)
    expect: Option<fn(usize) -> String>,
    max_pow: u32,
}

fn rec(body_ret: &str) -> String {
    format!("do f(n) start if to say (n small pass 1) start return 0 end {body_ret} end ")
}

pub fn syntactic_shape_texts(depths: &[usize]) -> Vec<(String, String)> {
    let mut v = Vec::new();
    for s in shapes(false) {
        if s.name.starts_with("nest-") || s.name.starts_with("chain-") || s.name.starts_with("ladder-") {
            for &d in depths {
                if d <= 1usize << s.max_pow {
                    v.push((format!("{} d={d}", s.name), (s.build)(d)));
                }
            }
        }
    }
    v
}

fn shapes(thorough: bool) -> Vec<Shape> {
    let hi = if thorough { 20 } else { 17 };
    let mid = 17;
    let count = |d: usize| format!("{d}");
    let mut v = vec![
        Shape { name: "rec-direct", build: |d| format!("{}shout(f({d}))", rec("return 1 add f(n minus 1)")), expect: Some(count), max_pow: hi },
        Shape { name: "rec-tail-arg", build: |d| format!("do g(n, acc) start if to say (n small pass 1) start return acc end return g(n minus 1, acc add 1) end shout(g({d}, 0))"), expect: Some(count), max_pow: hi },
        Shape { name: "rec-mutual", build: |d| format!("do ev(n) start if to say (n small pass 1) start return 0 end return 1 add od(n minus 1) end do od(n) start if to say (n small pass 1) start return 0 end return 1 add ev(n minus 1) end shout(ev({d}))"), expect: Some(count), max_pow: hi },
        Shape { name: "rec-through-if-cond", build: |d| format!("do f(n) start if to say (n small pass 1) start return 0 end if to say (f(n minus 1) pass minus 1) start return n end return n end shout(f({d}))"), expect: Some(count), max_pow: hi },
        Shape { name: "rec-through-jasi-cond", build: |d| format!("do f(n) start if to say (n small pass 1) start return 0 end make r get 0 jasi (f(n minus 1) small pass 0) start comot end return n end shout(f({d}))"), expect: Some(count), max_pow: mid },
        Shape { name: "rec-through-global-arg", build: |d| format!("{}shout(f({d}))", rec("return to_string(f(n minus 1)).len() times 0 add n")), expect: Some(count), max_pow: hi },
        Shape { name: "rec-through-method-arg", build: |d| format!("{}shout(f({d}))", rec("return \"abc\".slice(0, f(n minus 1)).len() times 0 add n")), expect: Some(count), max_pow: hi },
        Shape { name: "rec-through-index", build: |d| format!("make a get [0] {}shout(f({d}))", rec("return a[f(n minus 1) times 0] add n")), expect: Some(count), max_pow: hi },
        Shape { name: "rec-through-array-literal", build: |d| format!("{}shout(f({d}))", rec("return [f(n minus 1), n][1]")), expect: Some(count), max_pow: hi },
        Shape { name: "rec-through-concat", build: |d| format!("do f(n) start if to say (n small pass 1) start return \"\" end make s get \"{{n}}\" return \"x\" add f(n minus 1) end shout(f({d}).len())"), expect: Some(count), max_pow: mid },
        Shape { name: "rec-inside-64-blocks", build: |d| format!("do f(n) start if to say (n small pass 1) start return 0 end make r get 0 {} r get 1 add f(n minus 1) {} return r end shout(f({d}))", "start ".repeat(64), "end ".repeat(64)), expect: Some(count), max_pow: mid },
        Shape { name: "rec-via-nested-function", build: |d| format!("do f(n) start do inner(m) start return f(m) end if to say (n small pass 1) start return 0 end return 1 add inner(n minus 1) end shout(f({d}))"), expect: Some(count), max_pow: hi },
        Shape { name: "rec-string-param", build: |d| format!("do f(n, s) start if to say (n small pass 1) start return s.len() end return f(n minus 1, s add \"y\") end shout(f({d}, \"\"))"), expect: Some(count), max_pow: 14 },
        // syntactic nesting
        Shape { name: "nest-parens", build: |d| format!("shout({}1{})", "(".repeat(d), ")".repeat(d)), expect: Some(|_| "1".into()), max_pow: hi },
        Shape { name: "nest-array-literals", build: |d| format!("make a get {}1{} shout(1)", "[".repeat(d), "]".repeat(d)), expect: Some(|_| "1".into()), max_pow: hi },
        Shape { name: "nest-unary-not", build: |d| format!("shout({}true)", "not ".repeat(d)), expect: None, max_pow: hi },
        Shape { name: "nest-unary-minus", build: |d| format!("shout({}1 times 0)", "minus ".repeat(d)), expect: None, max_pow: hi },
        Shape { name: "nest-right-binary", build: |d| format!("shout({}0{})", "1 add (".repeat(d), ")".repeat(d)), expect: Some(count), max_pow: hi },
        Shape { name: "chain-left-binary", build: |d| format!("shout(0{})", " add 1".repeat(d)), expect: Some(count), max_pow: hi },
        Shape { name: "chain-and", build: |d| format!("shout(true{})", " and true".repeat(d)), expect: Some(|_| "true".into()), max_pow: hi },
        Shape { name: "chain-string-concat", build: |d| format!("shout((\"\"{}).len())", " add \"a\"\n".repeat(d)), expect: Some(count), max_pow: mid },
        Shape { name: "chain-index", build: |d| format!("make a get [0] shout(a{})", "[0]".repeat(d)), expect: None, max_pow: hi },
        Shape { name: "chain-method", build: |d| format!("shout(\" s \"{}.len())", ".trim()".repeat(d)), expect: Some(|_| "1".into()), max_pow: hi },
        Shape { name: "chain-bare-member", build: |d| format!("shout(\"M\"){}", "\n.if".repeat(d)), expect: None, max_pow: hi },
        Shape { name: "nest-call-args", build: |d| format!("do id(x) start return x end shout({}1{})", "id(".repeat(d), ")".repeat(d)), expect: Some(|_| "1".into()), max_pow: hi },
        Shape { name: "nest-blocks", build: |d| format!("{}shout(1) {}", "start ".repeat(d), "end ".repeat(d)), expect: Some(|_| "1".into()), max_pow: hi },
        Shape { name: "nest-ifs", build: |d| format!("{}shout(1) {}", "if to say (true) start ".repeat(d), "end ".repeat(d)), expect: Some(|_| "1".into()), max_pow: hi },
        Shape { name: "nest-loops", build: |d| format!("{}shout(1) comot {}", "jasi (true) start ".repeat(d), "comot end ".repeat(d)), expect: None, max_pow: mid },
        Shape { name: "nest-function-defs", build: |d| format!("{}shout(1) {}", (0..d).map(|i| format!("do f{i}() start ")).collect::<String>(), "end ".repeat(d)), expect: None, max_pow: 14 },
        Shape { name: "ladder-else", build: |d| format!("make x get 1 {}shout(1) {}", "if to say (x na 0) start end if not so start ".repeat(d), "end ".repeat(d)), expect: Some(|_| "1".into()), max_pow: hi },
        Shape { name: "nest-interpolation-args", build: |d| format!("make v get 1 shout({}\"{{v}}\"{})", "to_string(".repeat(d), ")".repeat(d)), expect: Some(|_| "1".into()), max_pow: hi },
        // nesting and chains combined: every level of a nested operand carries its own chain, so
        // the tree is (levels x chain) high although neither alone is deep
        Shape { name: "nest-parens-each-with-chain-250", build: |d| format!("make x get 0 shout({}x{})", "(".repeat(d), " add 1 add 1 add 1 add 1 add 1 add 1 add 1 add 1 add 1 add 1 add 1 add 1 add 1 add 1 add 1 add 1 add 1 add 1 add 1 add 1 add 1 add 1 add 1 add 1 add 1\n add 1 add 1 add 1 add 1 add 1 add 1 add 1 add 1 add 1 add 1 add 1 add 1 add 1 add 1 add 1 add 1 add 1 add 1 add 1 add 1 add 1 add 1 add 1 add 1 add 1\n add 1 add 1 add 1 add 1 add 1 add 1 add 1 add 1 add 1 add 1 add 1 add 1 add 1 add 1 add 1 add 1 add 1 add 1 add 1 add 1 add 1 add 1 add 1 add 1 add 1\n add 1 add 1 add 1 add 1 add 1 add 1 add 1 add 1 add 1 add 1 add 1 add 1 add 1 add 1 add 1 add 1 add 1 add 1 add 1 add 1 add 1 add 1 add 1 add 1 add 1\n add 1 add 1 add 1 add 1 add 1 add 1 add 1 add 1 add 1 add 1 add 1 add 1 add 1 add 1 add 1 add 1 add 1 add 1 add 1 add 1 add 1 add 1 add 1 add 1 add 1\n add 1 add 1 add 1 add 1 add 1 add 1 add 1 add 1 add 1 add 1 add 1 add 1 add 1 add 1 add 1 add 1 add 1 add 1 add 1 add 1 add 1 add 1 add 1 add 1 add 1\n add 1 add 1 add 1 add 1 add 1 add 1 add 1 add 1 add 1 add 1 add 1 add 1 add 1 add 1 add 1 add 1 add 1 add 1 add 1 add 1 add 1 add 1 add 1 add 1 add 1\n add 1 add 1 add 1 add 1 add 1 add 1 add 1 add 1 add 1 add 1 add 1 add 1 add 1 add 1 add 1 add 1 add 1 add 1 add 1 add 1 add 1 add 1 add 1 add 1 add 1\n add 1 add 1 add 1 add 1 add 1 add 1 add 1 add 1 add 1 add 1 add 1 add 1 add 1 add 1 add 1 add 1 add 1 add 1 add 1 add 1 add 1 add 1 add 1 add 1 add 1\n add 1 add 1 add 1 add 1 add 1 add 1 add 1 add 1 add 1 add 1 add 1 add 1 add 1 add 1 add 1 add 1 add 1 add 1 add 1 add 1 add 1 add 1 add 1 add 1 add 1)".repeat(d)), expect: None, max_pow: 12 },
        // the tallest tree a depth counter that forgets operand heights would still accept: the
        // level at nesting depth j carries a chain of (236 - j) operators
        Shape { name: "nest-parens-each-with-longest-admissible-chain", build: |d| {
            let mut s = format!("make x get 0 shout({}x", "(".repeat(d));
            for k in 0..d {
                let depth = d - k;
                s.push_str(&" add 1".repeat(236usize.saturating_sub(depth)));
                s.push_str(")\n");
            }
            s.push(')');
            s
        }, expect: None, max_pow: 9 },
        Shape { name: "nest-parens-each-with-chain-d", build: |d| format!("make x get 0 shout({}x{})", "(".repeat(d), format!("{})\n", " add 1".repeat(d)).repeat(d)), expect: None, max_pow: 10 },
        Shape { name: "nest-unary-each-with-chain-d", build: |d| format!("shout({}true{})", "not (".repeat(d), format!("{})\n", " and true".repeat(d)).repeat(d)), expect: None, max_pow: 10 },
        Shape { name: "nest-index-each-with-chain-d", build: |d| format!("make a get [0] shout({}a{})", "(".repeat(d), format!("{})\n", "[0]".repeat(d)).repeat(d)), expect: None, max_pow: 10 },
        Shape { name: "nest-array-elements-with-method-chain-d", build: |d| format!("shout({}\"s\"{}.len())", "[".repeat(d), format!("{}][0]\n", ".trim()".repeat(d)).repeat(d)), expect: None, max_pow: 10 },
        // data nested by a loop: built, copied on read, printed, compared, joined
        Shape { name: "data-nested-array-build", build: |d| format!("make a get [] make i get 0 jasi (i small pass {d}) start a get [a] i get i add 1 end shout(i)"), expect: Some(count), max_pow: mid },
        Shape { name: "data-nested-array-print", build: |d| format!("make a get [] make i get 0 jasi (i small pass {d}) start a get [a] i get i add 1 end shout(to_string(a).len())"), expect: None, max_pow: mid },
        Shape { name: "data-nested-array-join", build: |d| format!("make a get [1] make i get 0 jasi (i small pass {d}) start a get [a] i get i add 1 end shout(a.join(\",\"))"), expect: Some(|_| "1".into()), max_pow: mid },
        // data nested by *moving* the inner value (pop, wrap, push back): no copy of the inner levels is needed
        Shape { name: "data-nested-by-pop-wrap-push", build: |d| format!("make a get [[]] make i get 0 jasi (i small pass {d}) start a.push([a.pop()]) i get i add 1 end shout(a.len())"), expect: Some(|_| "1".into()), max_pow: mid },
        Shape { name: "data-nested-by-pop-wrap-push-print", build: |d| format!("make a get [[]] make i get 0 jasi (i small pass {d}) start a.push([a.pop()]) i get i add 1 end shout(to_string(a).len())"), expect: None, max_pow: mid },
        Shape { name: "data-nested-by-pop-into-variable", build: |d| format!("make a get [[]] make x get [] make i get 0 jasi (i small pass {d}) start x get [a.pop()] a.push(x.pop()) a.push([a.pop()]) i get i add 1 end make c get a shout(c.len())"), expect: Some(|_| "1".into()), max_pow: mid },
        Shape { name: "data-nested-by-pop-in-function", build: |d| format!("make a get [[]] do w() start return [a.pop()] end make i get 0 jasi (i small pass {d}) start a.push(w()) i get i add 1 end shout(a.len())"), expect: Some(|_| "1".into()), max_pow: mid },
        // a 100-deep literal assigned into the innermost slot of another: 100 more levels per iteration at linear cost
        Shape { name: "data-nested-by-assign-into-deep-literal", build: |d| {
            let lit = format!("{}0{}", "[".repeat(100), "]".repeat(100));
            format!("make s get {lit}\nmake k get 0\njasi (k small pass {d}) start\nmake t get {lit}\nt{} get s\ns get t\nk get k add 1\nend\nshout(k)", "[0]".repeat(100))
        }, expect: Some(count), max_pow: 10 },
        Shape { name: "data-nested-array-pass", build: |d| format!("do id(p) start return p end make a get [] make i get 0 jasi (i small pass {d}) start a get id([a]) i get i add 1 end shout(i)"), expect: Some(count), max_pow: mid },
    ];
    // unbounded recursion (no depth parameter): d is only a size of irrelevant padding
    v.push(Shape { name: "rec-unbounded", build: |d| format!("make pad get {d} do inf() start return inf() end shout(inf())"), expect: None, max_pow: 4 });
    v.push(Shape { name: "rec-unbounded-in-expr", build: |d| format!("make pad get {d} do inf(q) start return 1 add [inf(q add 1)][0] end shout(inf(0))"), expect: None, max_pow: 4 });
    v
}

#[derive(Clone, Debug, PartialEq, Eq)]
enum Class {
    Ok,
    WrongValue(String),
    StackOverflowReported,
    OrdinaryDiagnostic,
    Crash(String),
    Memory,
    Timeout,
}

impl Class {
    fn name(&self) -> String {
        match self {
            Class::Ok => "ok".into(),
            Class::WrongValue(_) => "wrong-value".into(),
            Class::StackOverflowReported => "stack-overflow-reported".into(),
            Class::OrdinaryDiagnostic => "ordinary-diagnostic".into(),
            Class::Crash(_) => "native-crash".into(),
            Class::Memory => "resource:memory".into(),
            Class::Timeout => "timeout".into(),
        }
    }
}

fn classify(shape: &Shape, d: usize, r: &cli::CliRun) -> Class {
    let err = String::from_utf8_lossy(&r.stderr);
    let out = String::from_utf8_lossy(&r.stdout);
    if r.timed_out {
        return Class::Timeout;
    }
    if err.contains("memory allocation of") || err.contains("arena capacity exceeded") || err.contains("capacity overflow") {
        return Class::Memory;
    }
    if let Some(why) = r.crashed() {
        return Class::Crash(why);
    }
    if r.code == Some(0) {
        if let Some(e) = shape.expect {
            let want = e(d);
            if !out.lines().any(|l| l == want) {
                return Class::WrongValue(format!("wanted line {want:?}, stdout starts {:?}", out.chars().take(80).collect::<String>()));
            }
        }
        return Class::Ok;
    }
    if out.contains("Stack overflow") || err.contains("Stack overflow") {
        return Class::StackOverflowReported;
    }
    Class::OrdinaryDiagnostic
}

struct DepthSpace {
    shapes: Vec<Shape>,
    window: usize,
    thorough: bool,
}

impl DepthSpace {
    fn probe(&self, shape: &Shape, build: Build, d: usize, runs: &mut u64) -> Class {
        *runs += 1;
        let src = (shape.build)(d);
        // A run that takes more than a few seconds (rendering tens of thousands of diagnostics,
        // copying megabytes of nested data) ends the depth grid of its shape like a run that
        // exhausts memory: a cap, reported as such, never a verdict. A crash is still a crash.
        let t0 = std::time::Instant::now();
        let r = cli::run(build, Input::File(&src), None, Duration::from_secs(if self.thorough { 240 } else { 20 }));
        let c = classify(shape, d, &r);
        if !matches!(c, Class::Crash(_)) && t0.elapsed() > Duration::from_secs(if self.thorough { 60 } else { 6 }) {
            return Class::Timeout;
        }
        c
    }
}

impl Space for DepthSpace {
    fn id(&self) -> String {
        "shape-x-depth-x-build".into()
    }
    fn size(&self) -> u64 {
        self.shapes.len() as u64 * 2
    }
    fn profile(&self) -> Profile {
        Profile::Fast
    }
    fn chunk(&self) -> u64 {
        1
    }
    fn case_timeout_ms(&self) -> u64 {
        3_600_000
    }
    fn describe(&self, i: u64) -> String {
        let s = &self.shapes[(i / 2) as usize];
        let b = if i % 2 == 0 { Build::Dev } else { Build::Release };
        format!("shape {} on naija({}), depths 2^3..2^{} + bisection + window; e.g. d=3: {}", s.name, b.name(), s.max_pow, (s.build)(3))
    }
    fn run(&self, _ctx: &mut Ctx, i: u64) -> Outcome {
        let shape = &self.shapes[(i / 2) as usize];
        let build = if i % 2 == 0 { Build::Dev } else { Build::Release };
        let mut runs = 0u64;
        let mut seen: Vec<(usize, Class)> = Vec::new();
        let bad = |d: usize, c: &Class, runs: u64| {
            let (class, why) = match c {
                Class::Crash(w) => ("native-crash-instead-of-stack-overflow-error", w.clone()),
                Class::WrongValue(w) => ("wrong-value-at-depth", w.clone()),
                _ => unreachable!(),
            };
            // findings are keyed by shape and build, not by the exact depth
            let mut v = Violation::new(class, format!("shape {} build {} depth {d}", shape.name, build.name()), json!({"why": why, "runs": runs, "program_at_depth_3": (shape.build)(3)}));
            v.signature = format!("shape {} build {}", shape.name, build.name());
            Outcome { nontrivial: true, class: "violation".into(), violations: vec![v], counters: vec![("cli_runs", runs)], sample: None }
        };
        // grid
        let mut p = 3;
        while p <= shape.max_pow {
            let d = 1usize << p;
            let c = self.probe(shape, build, d, &mut runs);
            if matches!(c, Class::Crash(_) | Class::WrongValue(_)) {
                return bad(d, &c, runs);
            }
            let stop = matches!(c, Class::Memory | Class::Timeout);
            seen.push((d, c));
            if stop {
                break;
            }
            p += 1;
        }
        // switch points
        let mut switches = 0;
        let grid = seen.clone();
        for w in grid.windows(2) {
            let ((lo_d, lo_c), (hi_d, hi_c)) = (w[0].clone(), w[1].clone());
            if lo_c.name() == hi_c.name() {
                continue;
            }
            switches += 1;
            // where memory or time runs out is a property of the machine, not a boundary of
            // behaviour: nothing to locate
            if matches!(hi_c, Class::Memory | Class::Timeout) {
                continue;
            }
            let (mut lo, mut hi) = (lo_d, hi_d);
            let mut slow = false;
            // an expensive shape is only located to within 64 levels (stated in the evidence sample)
            while hi - lo > if slow { 64 } else { 1 } {
                let mid = lo + (hi - lo) / 2;
                let t_probe = std::time::Instant::now();
                let c = self.probe(shape, build, mid, &mut runs);
                slow |= t_probe.elapsed().as_millis() > 250;
                if matches!(c, Class::Crash(_) | Class::WrongValue(_)) {
                    return bad(mid, &c, runs);
                }
                if c.name() == lo_c.name() {
                    lo = mid;
                } else {
                    hi = mid;
                }
            }
            // dense window around the switch point (narrow where a single run is expensive:
            // the data shapes cost time quadratic in the depth)
            if !matches!(hi_c, Class::Memory | Class::Timeout) {
                let t_probe = std::time::Instant::now();
                let _ = self.probe(shape, build, hi, &mut runs);
                let window = if t_probe.elapsed().as_millis() > 250 { 2 } else { self.window };
                let from = hi.saturating_sub(window).max(1);
                for d in from..=hi + window {
                    let c = self.probe(shape, build, d, &mut runs);
                    if matches!(c, Class::Crash(_) | Class::WrongValue(_)) {
                        return bad(d, &c, runs);
                    }
                }
            }
            seen.push((hi, hi_c));
        }
        let mut classes: Vec<String> = seen.iter().map(|(_, c)| c.name()).collect();
        classes.sort();
        classes.dedup();
        Outcome {
            nontrivial: switches > 0,
            class: classes.join("+"),
            violations: vec![],
            counters: vec![("cli_runs", runs), ("switch_points", switches)],
            sample: Some(json!({"shape": shape.name, "build": build.name(), "grid": grid.iter().map(|(d, c)| format!("{d}:{}", c.name())).collect::<Vec<_>>()})),
        }
    }
}

// ---------------------------------------------------------------------------------------
// Composition: nesting through every operand position, each level decorated with a chain.
// Height adds up across levels although no single level is deep, so whatever bounds the tree
// has to account for chains on top of operands in *every* position.
// ---------------------------------------------------------------------------------------

/// (name, text before the nested operand, text after it, one chain link)
const WRAPS: &[(&str, &str, &str, &str)] = &[
    ("paren-then-chain", "(", ")", " add 1"),
    ("rhs-paren-then-chain", "1 add (", ")", " add 1"),
    ("rhs-of-times-then-add-chain", "2 times (", ")", " add 1"),
    ("call-arg-then-chain", "id(", ")", " add 1"),
    ("second-call-arg-then-chain", "snd(0, ", ")", " add 1"),
    ("index-expr-then-chain", "a[0 times (", ")]", " add 1"),
    ("array-element-then-index-chain", "[[", "]]", "[0]"),
    ("unary-then-chain", "minus (", ")", " minus 1"),
    ("method-arg-then-chain", "\"abc\".slice(0, ", ").len()", " add 1"),
    ("rhs-of-and-then-or-chain", "1 and (", ")", " or 0"),
    ("index-target-then-member-chain", "[\"s\", ", "][0]", ".trim()"),
];

fn composed(wrap: usize, levels: usize, chain: usize) -> String {
    let (_, pre, post, link) = WRAPS[wrap];
    let mut s = String::from("do id(x) start return x end do snd(x, y) start return y end make a get [0, 0]\nmake r get ");
    s.push_str(&pre.repeat(levels));
    s.push_str(if wrap == 10 { "\" t \"" } else if wrap == 6 { "[0]" } else { "0" });
    let mut level = String::from(post);
    level.push_str(&link.repeat(chain));
    level.push('\n');
    s.push_str(&level.repeat(levels));
    s.push_str("\nshout(\"done\")\n");
    s
}

struct ComposeSpace {
    chains: Vec<usize>,
    levels: Vec<usize>,
}

impl Space for ComposeSpace {
    fn id(&self) -> String {
        "operand-position-x-chain-x-levels".into()
    }
    fn size(&self) -> u64 {
        (WRAPS.len() * self.chains.len()) as u64
    }
    fn profile(&self) -> Profile {
        Profile::Fast
    }
    fn chunk(&self) -> u64 {
        1
    }
    fn case_timeout_ms(&self) -> u64 {
        3_600_000
    }
    fn describe(&self, i: u64) -> String {
        let (w, k) = ((i as usize) / self.chains.len(), self.chains[(i as usize) % self.chains.len()]);
        format!("wrap {} with a chain of {k} per level, levels {:?}, in-process tree height + naija dev and release; e.g. 2 levels, chain 2: {}", WRAPS[w].0, self.levels, composed(w, 2, 2))
    }
    fn run(&self, ctx: &mut Ctx, i: u64) -> Outcome {
        let (w, k) = ((i as usize) / self.chains.len(), self.chains[(i as usize) % self.chains.len()]);
        let name = WRAPS[w].0;
        let viol = |class: &str, l: usize, why: String| {
            let mut v = Violation::new(class, format!("wrap {name} chain {k} levels {l}"), json!({"why": why, "program_at_2_levels_chain_2": composed(w, 2, 2)}));
            v.signature = format!("wrap {name}");
            Outcome { nontrivial: true, class: "violation".into(), violations: vec![v], counters: vec![], sample: None }
        };
        // Calibration: the tallest tree the parser accepts when only ONE mechanism is used (pure
        // array nesting, a pure operator chain, pure unary nesting). A composed program must not
        // get a (much) taller tree accepted than any of those.
        let singles: [fn(usize) -> String; 3] = [
            |d| format!("make r get {}0{}", "[".repeat(d), "]".repeat(d)),
            |d| format!("make r get 0{}", " add 1".repeat(d)),
            |d| format!("make r get {}true", "not ".repeat(d)),
        ];
        let cap = 4096usize;
        let mut limit = Some(0usize);
        for single in singles {
            let height = |ctx: &Ctx, d: usize| drive::parsed_tree_height(ctx, &single(d)).ok().flatten();
            if height(ctx, cap).is_some() {
                limit = None; // no effective syntactic limit below the cap: only the process-level oracle applies
                break;
            }
            let (mut lo, mut hi) = (1usize, cap);
            while hi - lo > 1 {
                let mid = lo + (hi - lo) / 2;
                if height(ctx, mid).is_some() { lo = mid } else { hi = mid }
            }
            if let (Some(m), Some(h)) = (limit, height(ctx, lo)) {
                limit = Some(m.max(h));
            }
        }
        let (mut runs, mut accepted_n, mut tallest) = (0u64, 0u64, 0usize);
        let mut classes = std::collections::BTreeSet::new();
        for &l in &self.levels {
            let src = composed(w, l, k);
            match drive::parsed_tree_height(ctx, &src) {
                Err(p) => return viol("front-end-panic", l, p),
                Ok(Some(h)) => {
                    accepted_n += 1;
                    tallest = tallest.max(h);
                    if let Some(m) = limit
                        && h > m + 16
                    {
                        return viol("accepted-tree-taller-than-the-nesting-limit", l, format!("tree height {h}; tallest tree accepted for pure nesting / a pure chain: {m}"));
                    }
                }
                Ok(None) => {}
            }
            for build in [Build::Dev, Build::Release] {
                runs += 1;
                let r = cli::run(build, Input::File(&src), None, Duration::from_secs(120));
                let shape = Shape { name, build: |_| String::new(), expect: None, max_pow: 0 };
                let c = classify(&shape, l, &r);
                if let Class::Crash(why) = &c {
                    return viol("native-crash-instead-of-stack-overflow-error", l, format!("naija({}): {why}", build.name()));
                }
                classes.insert(c.name());
            }
        }
        Outcome {
            nontrivial: accepted_n > 0 && classes.len() > 1,
            class: classes.into_iter().collect::<Vec<_>>().join("+"),
            violations: vec![],
            counters: vec![("cli_runs", runs), ("accepted", accepted_n)],
            sample: Some(json!({"wrap": name, "chain": k, "tallest_single_mechanism_tree": limit, "tallest_accepted_tree": tallest})),
        }
    }
}

pub fn spaces(tier: Tier) -> Vec<Box<dyn Space>> {
    let t = tier == Tier::Thorough;
    vec![
        Box::new(DepthSpace { shapes: shapes(t), window: if t { 64 } else { 16 }, thorough: t }),
        Box::new(ComposeSpace {
            chains: if t { vec![1, 8, 30, 60, 100, 150, 200, 250] } else { vec![30, 100, 250] },
            levels: if t { vec![1, 2, 3, 4, 6, 8, 12, 16, 20, 24, 32, 48, 64, 96, 128, 200, 255, 300] } else { vec![1, 2, 4, 8, 20, 64, 128, 255] },
        }),
    ]
}
