//! C16 — captured child output is complete or an error, never silently truncated.
//! E3: stateless exploration of all interleavings (iterative preemption bounding) of the real
//! `run_host_process` — its wait-loop thread W, reader threads Ro / Re, stdin writer Wr — with
//! a commanded child C and a virtual timer T, under a gate scheduler installed through the H4
//! hook points. Exactly one of them moves at a time; blocking calls are only granted when
//! they cannot block; the harness keeps an exact shadow of both pipes because it commands
//! every write.

use std::collections::BTreeMap;
use std::io::{BufRead, BufReader, Write};
use std::os::unix::net::{UnixListener, UnixStream};
use std::sync::{Arc, Condvar, Mutex, OnceLock};

use naijascript::arena::{Arena, ArenaString};
use naijascript::process::{OutputPolicy, ProcessCaps, ProcessCommand, ProcessError, ProcessStream, StdinPolicy};
use naijascript::sys::ProcessRunner;
use naijascript::verif_hooks::{self as vh, process_points as pp};
use serde_json::json;

use crate::drive::Ctx;
use crate::engine::{Outcome, Profile, PropMeta, Space, Tier, Violation};

pub fn meta(_tier: Tier) -> PropMeta {
    PropMeta {
        id: "C16",
        level: "exploration",
        rule: "a case is one (scenario, preemption bound): depth-first exploration of every schedule of the real \
               runner's threads (wait loop W, stdout reader Ro, stderr reader Re, stdin writer Wr), the commanded \
               child C and the virtual timer T with at most `bound` preemptions (iterative context bounding: \
               bound 0, then 1, then 2); every execution runs to completion. Scenarios: capture limit 4 bytes; \
               child scripts = every sequence of <= 2 (thorough 3) steps from {out 1, out 4, out 5, err 1, err 5, \
               out 0xFF, close out} followed by exit 0 / exit 3 / never-exits; the nine stdout x stderr policy \
               combinations; stdin null or text; timer absent or present. Oracle at the end of every execution: \
               Ok => every captured stream equals all bytes the child wrote to it, none over the limit, valid \
               UTF-8, nothing of the other stream, non-captured streams null, exit code as commanded, child not \
               killed; Err => its kind is justified by a condition that is true of this execution (that stream \
               really exceeded, really invalid UTF-8, timer really expired); always: child reaped, all runner \
               threads finished, no deadlock. One schedule per case is replayed twice and must be identical. \
               Non-trivial = the case contained executions with >= 1 preemption and >= 2 distinct outcomes or an \
               error outcome; distinct by (scenario, bound)"
            .into(),
        assumptions: vec![
            "scheduling points are the H4 hook points (before/after every read, flag CAS, try_wait, clock test, sleep, join, kill); the one atomic is SeqCst/Acquire — weaker memory-order effects are not explored".into(),
            "a wait-loop iteration that can observe nothing new is a stutter and is not scheduled (it has no effect other than its three reads)".into(),
            "preemption bound as stated per case; executions, not states, are enumerated (no partial-order reduction)".into(),
        ],
        explanation: String::new(),
    }
}

const W: usize = 0;
const RO: usize = 1;
const RE: usize = 2;
const WR: usize = 3;
const C: usize = 4;
const T: usize = 5;
const NAMES: [&str; 6] = ["W", "Ro", "Re", "Wr", "C", "T"];

#[derive(Default)]
struct St {
    active: bool,
    parked: [Option<(u32, u64)>; 4],
    grant: Option<usize>,
    finished: [bool; 4],
}

struct Shared {
    mu: Mutex<St>,
    cv: Condvar,
}

fn role_of(point: u32, arg: u64) -> usize {
    match point {
        pp::READER_START | pp::READER_BEFORE_READ | pp::READER_AFTER_READ | pp::READER_AFTER_FLAG | pp::READER_END => {
            if arg & 0xff == 1 { RO } else { RE }
        }
        pp::WRITER_START => WR,
        _ => W,
    }
}

fn on_point(sh: &Shared, point: u32, arg: u64) {
    let role = role_of(point, arg);
    let mut st = sh.mu.lock().unwrap();
    if !st.active {
        return;
    }
    st.parked[role] = Some((point, arg));
    sh.cv.notify_all();
    while st.grant != Some(role) {
        st = sh.cv.wait(st).unwrap();
        if !st.active {
            st.parked[role] = None;
            return;
        }
    }
    st.grant = None;
    st.parked[role] = None;
    if point == pp::READER_END || point == pp::WRITER_START {
        st.finished[role] = true; // no further points on this thread
    }
    sh.cv.notify_all();
}

struct Sched {
    sh: Arc<Shared>,
    listener: UnixListener,
    child: String,
}

static SCHED: OnceLock<Sched> = OnceLock::new();

fn sched() -> &'static Sched {
    SCHED.get_or_init(|| {
        let dir = crate::util::verif_root().join("target/tmp").join(format!("c16-{}", std::process::id()));
        let _ = std::fs::create_dir_all(&dir);
        let sock = dir.join("ctl.sock");
        let _ = std::fs::remove_file(&sock);
        let listener = UnixListener::bind(&sock).expect("bind control socket");
        unsafe { std::env::set_var("VCHILD_SOCK", &sock) };
        let mut child = std::env::current_exe().unwrap();
        child.pop();
        let child = child.join("vchild").display().to_string();
        let sh = Arc::new(Shared { mu: Mutex::new(St::default()), cv: Condvar::new() });
        let sh2 = Arc::clone(&sh);
        vh::install(Box::new(move |p, a| on_point(&sh2, p, a)));
        Sched { sh, listener, child }
    })
}

#[derive(Clone, Debug, PartialEq, Eq)]
enum CStep {
    Out(usize),
    Err(usize),
    BadByte,
    CloseOut,
    Exit(i32),
}

impl CStep {
    fn show(&self) -> String {
        match self {
            CStep::Out(n) => format!("o{n}"),
            CStep::Err(n) => format!("e{n}"),
            CStep::BadByte => "xFF".into(),
            CStep::CloseOut => "co".into(),
            CStep::Exit(c) => format!("q{c}"),
        }
    }
}

#[derive(Clone, Debug)]
struct Scenario {
    cap: u32,
    script: Vec<CStep>,
    out: OutputPolicy,
    err: OutputPolicy,
    stdin_text: bool,
    timer: bool,
}

impl Scenario {
    fn name(&self) -> String {
        let p = |o: OutputPolicy| match o {
            OutputPolicy::Capture => "cap",
            OutputPolicy::Null => "null",
            OutputPolicy::Inherit => "inh",
        };
        format!(
            "[{}] out={} err={} stdin={} timer={} limit={}",
            self.script.iter().map(CStep::show).collect::<Vec<_>>().join(" "),
            p(self.out),
            p(self.err),
            if self.stdin_text { "text" } else { "null" },
            self.timer,
            self.cap
        )
    }
}

#[derive(Debug, Clone, PartialEq)]
enum RunEnd {
    Ok { code: Option<i32>, out: Option<Vec<u8>>, err: Option<Vec<u8>> },
    Limit(bool), // true = stdout
    Utf8(bool),
    Timeout,
    Other(String),
}

impl RunEnd {
    fn show(&self) -> String {
        match self {
            RunEnd::Ok { code, out, err } => format!(
                "Ok(code={code:?}, out={:?}, err={:?})",
                out.as_ref().map(|b| String::from_utf8_lossy(b).to_string()),
                err.as_ref().map(|b| String::from_utf8_lossy(b).to_string())
            ),
            RunEnd::Limit(o) => format!("Err(OutputLimitExceeded({}))", if *o { "stdout" } else { "stderr" }),
            RunEnd::Utf8(o) => format!("Err(InvalidUtf8({}))", if *o { "stdout" } else { "stderr" }),
            RunEnd::Timeout => "Err(Timeout)".into(),
            RunEnd::Other(s) => format!("Err({s})"),
        }
    }
}

struct Exec {
    choices: Vec<usize>,
    enabled_counts: Vec<usize>,
    preempt_cost: Vec<Vec<u32>>,
    trace: Vec<String>,
    end: Option<RunEnd>,
    violation: Option<(String, String)>,
    preemptions: u32,
}

fn run_once(sc: &Scenario, prefix: &[usize]) -> Exec {
    let s = sched();
    let sh = &s.sh;
    {
        let mut st = sh.mu.lock().unwrap();
        *st = St::default();
        st.active = true;
    }
    vh::set_timer_expired(false);
    let caps = ProcessCaps { max_capture_bytes_per_stream: sc.cap, wait_poll_ms: 0, ..ProcessCaps::defaults() };
    let sh2 = Arc::clone(sh);
    let child_path = s.child.clone();
    let sc2 = sc.clone();
    let wthread = std::thread::spawn(move || {
        let arena = Arena::new(1 << 20).unwrap();
        let mut cmd = ProcessCommand::new(&child_path, &arena);
        cmd.push_arg(ArenaString::from_str(&arena, "serve"));
        if sc2.stdin_text {
            cmd.set_stdin_text(ArenaString::from_str(&arena, "some input text\n"));
        } else {
            cmd.set_stdin_policy(StdinPolicy::Null);
        }
        cmd.set_stdout_policy(sc2.out);
        cmd.set_stderr_policy(sc2.err);
        cmd.set_timeout_ms(3_000_000);
        let spec = cmd.validate(&caps).unwrap();
        let res = naijascript::sys::process::run(&spec, &caps, &arena);
        let end = match &res {
            Ok(r) => RunEnd::Ok {
                code: r.exit_code,
                out: r.stdout.as_ref().map(|s| s.as_bytes().to_vec()),
                err: r.stderr.as_ref().map(|s| s.as_bytes().to_vec()),
            },
            Err(ProcessError::OutputLimitExceeded(s)) => RunEnd::Limit(*s == ProcessStream::Stdout),
            Err(ProcessError::InvalidUtf8(s)) => RunEnd::Utf8(*s == ProcessStream::Stdout),
            Err(ProcessError::Timeout) => RunEnd::Timeout,
            Err(e) => RunEnd::Other(format!("{e:?}")),
        };
        let mut st = sh2.mu.lock().unwrap();
        st.finished[W] = true;
        sh2.cv.notify_all();
        end
    });

    // shadow state
    let mut ctl: Option<(UnixStream, BufReader<UnixStream>)> = None;
    let mut child_pid: i32 = 0;
    let (mut out_bytes, mut err_bytes) = (0usize, 0usize);
    let (mut out_open, mut err_open) = (true, true);
    let mut out_written: Vec<u8> = Vec::new();
    let mut err_written: Vec<u8> = Vec::new();
    let mut child_exited = false;
    let mut exit_code: Option<i32> = None;
    let mut child_killed = false;
    let mut cpos = 0usize;
    let mut expired = false;
    let mut flag_version = 0u32;
    let (mut w_seen_flag, mut w_seen_exit, mut w_seen_expired) = (0u32, false, false);
    let mut w_iterations = 0u32;
    let mut w_in_wait_loop = false;
    let cap_out = sc.out == OutputPolicy::Capture;
    let cap_err = sc.err == OutputPolicy::Capture;
    let expected = [true, cap_out, cap_err, sc.stdin_text];

    let mut ex = Exec { choices: vec![], enabled_counts: vec![], preempt_cost: vec![], trace: vec![], end: None, violation: None, preemptions: 0 };
    let mut last: Option<usize> = None;
    let mut steps = 0u32;

    loop {
        steps += 1;
        // quiesce: every existing runner thread is parked or finished
        {
            let mut st = sh.mu.lock().unwrap();
            loop {
                let mut ok = st.grant.is_none();
                let w_past_spawn = st.finished[W] || matches!(st.parked[W], Some((p, _)) if p != pp::SPAWNED);
                for r in 0..4 {
                    if !expected[r] {
                        continue;
                    }
                    let exists = r == W || w_past_spawn;
                    if exists && !(st.parked[r].is_some() || st.finished[r]) {
                        ok = false;
                    }
                }
                if !(st.parked[W].is_some() || st.finished[W]) {
                    ok = false;
                }
                if ok {
                    break;
                }
                st = sh.cv.wait(st).unwrap();
            }
            // absorb observations of newly parked points (each exactly once)
            for r in [RO, RE] {
                if let Some((p, a)) = st.parked[r] {
                    if p == pp::READER_AFTER_READ {
                        let n = (a >> 8) as usize;
                        if n > 0 {
                            if r == RO {
                                out_bytes = out_bytes.saturating_sub(n);
                            } else {
                                err_bytes = err_bytes.saturating_sub(n);
                            }
                            st.parked[r] = Some((p, a & 0xff));
                        }
                    }
                    if p == pp::READER_AFTER_FLAG && a & 0x100 == 0 {
                        flag_version += 1;
                        st.parked[r] = Some((p, a | 0x100));
                    }
                }
            }
            if let Some((p, _)) = st.parked[W] {
                if p == pp::SPAWNED && ctl.is_none() {
                    drop(st);
                    let (sck, _) = s.listener.accept().expect("accept child control connection");
                    let mut r = BufReader::new(sck.try_clone().unwrap());
                    let mut line = String::new();
                    let _ = r.read_line(&mut line);
                    child_pid = line.trim().strip_prefix("p ").and_then(|x| x.parse().ok()).unwrap_or(0);
                    ctl = Some((sck, r));
                    st = sh.mu.lock().unwrap();
                }
                if p == pp::WAIT_TOP {
                    w_in_wait_loop = true;
                }
                if p == pp::TERMINATED && !child_killed {
                    child_killed = true;
                    out_open = false;
                    err_open = false;
                }
            }
            drop(st);
        }
        // enabled set
        let st = sh.mu.lock().unwrap();
        let mut enabled: Vec<usize> = vec![];
        if let Some((p, a)) = st.parked[W] {
            let en = match p {
                pp::WAIT_TOP => w_iterations == 0 || flag_version != w_seen_flag || child_exited != w_seen_exit || expired != w_seen_expired,
                pp::JOIN_BEFORE => match a {
                    0 => !expected[WR] || st.finished[WR],
                    1 => st.finished[RO],
                    _ => st.finished[RE],
                },
                _ => true,
            };
            if en {
                enabled.push(W);
            }
        }
        for r in [RO, RE] {
            if let Some((p, _)) = st.parked[r] {
                let (bytes, open) = if r == RO { (out_bytes, out_open) } else { (err_bytes, err_open) };
                let en = match p {
                    pp::READER_BEFORE_READ => bytes > 0 || !open,
                    _ => true,
                };
                if en {
                    enabled.push(r);
                }
            }
        }
        if st.parked[WR].is_some() {
            enabled.push(WR);
        }
        if ctl.is_some() && !child_exited && !child_killed && cpos < sc.script.len() {
            enabled.push(C);
        }
        if sc.timer && !expired && w_in_wait_loop && !st.finished[W] {
            enabled.push(T);
        }
        let all_done = (0..4).all(|r| !expected[r] || st.finished[r]);
        drop(st);
        if enabled.is_empty() || steps > 400 {
            if !all_done {
                ex.violation = Some((
                    if steps > 400 { "runner-livelock".into() } else { "runner-deadlock".into() },
                    format!("no enabled thread but the runner has not finished; trace {:?}", ex.trace),
                ));
                // release everything: gating off, kill the child so blocked reads/joins finish
                if child_pid > 0 {
                    unsafe { libc::kill(child_pid, libc::SIGKILL) };
                }
                let mut st = sh.mu.lock().unwrap();
                st.active = false;
                sh.cv.notify_all();
            }
            break;
        }
        // choose
        let default_idx = match last {
            Some(l) => enabled.iter().position(|&r| r == l).unwrap_or(0),
            None => 0,
        };
        let last_enabled = last.is_some_and(|l| enabled.contains(&l));
        let d = ex.choices.len();
        let idx = if d < prefix.len() {
            if prefix[d] >= enabled.len() {
                ex.violation = Some(("REPLAY-DIVERGENCE".into(), format!("prefix {prefix:?} decision {d} has only {} enabled", enabled.len())));
                if child_pid > 0 {
                    unsafe { libc::kill(child_pid, libc::SIGKILL) };
                }
                let mut st = sh.mu.lock().unwrap();
                st.active = false;
                sh.cv.notify_all();
                break;
            }
            prefix[d]
        } else {
            default_idx
        };
        let costs: Vec<u32> = (0..enabled.len()).map(|i| ex.preemptions + u32::from(last_enabled && i != default_idx)).collect();
        if last_enabled && idx != default_idx {
            ex.preemptions += 1;
        }
        ex.choices.push(idx);
        ex.enabled_counts.push(enabled.len());
        ex.preempt_cost.push(costs);
        let role = enabled[idx];
        last = Some(role);
        // perform
        match role {
            C => {
                let step = sc.script[cpos].clone();
                cpos += 1;
                let (sck, r) = ctl.as_mut().unwrap();
                let ack = |sck: &mut UnixStream, r: &mut BufReader<UnixStream>, cmd: String| {
                    let _ = writeln!(sck, "{cmd}");
                    let mut line = String::new();
                    let _ = r.read_line(&mut line);
                };
                match &step {
                    CStep::Out(n) => {
                        ack(sck, r, format!("o {n}"));
                        if out_open {
                            out_bytes += n;
                            out_written.extend(std::iter::repeat_n(b'o', *n));
                        }
                    }
                    CStep::Err(n) => {
                        ack(sck, r, format!("e {n}"));
                        if err_open {
                            err_bytes += n;
                            err_written.extend(std::iter::repeat_n(b'e', *n));
                        }
                    }
                    CStep::BadByte => {
                        ack(sck, r, "x".into());
                        if out_open {
                            out_bytes += 1;
                            out_written.push(0xFF);
                        }
                    }
                    CStep::CloseOut => {
                        ack(sck, r, "co".into());
                        out_open = false;
                    }
                    CStep::Exit(code) => {
                        let _ = writeln!(sck, "q {code}");
                        unsafe {
                            let mut info: libc::siginfo_t = std::mem::zeroed();
                            libc::waitid(libc::P_PID, child_pid as u32, &mut info, libc::WEXITED | libc::WNOWAIT);
                        }
                        child_exited = true;
                        exit_code = Some(*code);
                        out_open = false;
                        err_open = false;
                    }
                }
                ex.trace.push(format!("C:{}", step.show()));
            }
            T => {
                vh::set_timer_expired(true);
                expired = true;
                ex.trace.push("T:expire".into());
            }
            r => {
                let mut st = sh.mu.lock().unwrap();
                let (p, _) = st.parked[r].unwrap();
                if r == W {
                    match p {
                        pp::WAIT_TOP => {
                            w_seen_flag = flag_version;
                            w_iterations += 1;
                        }
                        pp::WAIT_BEFORE_TRYWAIT => w_seen_exit = child_exited,
                        pp::WAIT_BEFORE_CLOCK => w_seen_expired = expired,
                        _ => {}
                    }
                }
                ex.trace.push(format!("{}:{}", NAMES[r], p));
                st.grant = Some(r);
                sh.cv.notify_all();
                while !(st.grant.is_none() && (st.parked[r].is_some() || st.finished[r])) {
                    st = sh.cv.wait(st).unwrap();
                }
            }
        }
    }
    let end = wthread.join().unwrap_or(RunEnd::Other("runner thread panicked".into()));
    {
        let mut st = sh.mu.lock().unwrap();
        st.active = false;
        sh.cv.notify_all();
    }
    vh::set_timer_expired(false);
    // ---- oracle
    if ex.violation.is_none() {
        let cap = sc.cap as usize;
        let over_out = cap_out && out_written.len() > cap;
        let over_err = cap_err && err_written.len() > cap;
        let bad_out = cap_out && std::str::from_utf8(&out_written).is_err();
        let bad_err = cap_err && std::str::from_utf8(&err_written).is_err();
        let v = |class: &str, why: String| Some((class.to_string(), why));
        ex.violation = match &end {
            RunEnd::Ok { code, out, err } => {
                let want_out = if cap_out { Some(out_written.clone()) } else { None };
                let want_err = if cap_err { Some(err_written.clone()) } else { None };
                if over_out || over_err {
                    v("ok-result-although-limit-exceeded", format!("wrote out={} err={} bytes, limit {cap}", out_written.len(), err_written.len()))
                } else if bad_out || bad_err {
                    v("ok-result-although-invalid-utf8", String::new())
                } else if *out != want_out || *err != want_err {
                    v("captured-output-not-what-the-child-wrote", format!("child wrote out={:?} err={:?}", String::from_utf8_lossy(&out_written), String::from_utf8_lossy(&err_written)))
                } else if child_killed {
                    v("ok-result-although-child-was-killed", String::new())
                } else if !child_exited {
                    v("ok-result-before-child-exit", String::new())
                } else if *code != exit_code {
                    v("wrong-exit-code", format!("commanded {exit_code:?}"))
                } else {
                    None
                }
            }
            RunEnd::Limit(is_out) => {
                if (*is_out && !over_out) || (!*is_out && !over_err) {
                    v("limit-error-not-justified", format!("wrote out={} err={} bytes, limit {cap}", out_written.len(), err_written.len()))
                } else {
                    None
                }
            }
            RunEnd::Utf8(is_out) => {
                if (*is_out && !bad_out) || (!*is_out && !bad_err) {
                    v("utf8-error-not-justified", String::new())
                } else {
                    None
                }
            }
            RunEnd::Timeout => {
                if expired { None } else { v("timeout-error-but-timer-never-expired", String::new()) }
            }
            RunEnd::Other(e) => v("unexpected-error", e.clone()),
        };
    }
    // the child must not be left running; never leave one behind for the next execution
    // (waitpid tells whether the pid is still *our* live child: no signal is ever sent to a
    // pid that has been reaped and could have been recycled)
    if child_pid > 0 {
        let mut status = 0;
        let r = unsafe { libc::waitpid(child_pid, &mut status, libc::WNOHANG) };
        if r == 0 {
            if ex.violation.is_none() {
                ex.violation = Some(("child-left-running".into(), format!("pid {child_pid} still runs after {}", end.show())));
            }
            unsafe {
                libc::kill(child_pid, libc::SIGKILL);
                libc::waitpid(child_pid, &mut status, 0);
            }
        }
    }
    ex.end = Some(end);
    ex
}

// ---------------------------------------------------------------------------------------

fn scenarios(thorough: bool) -> Vec<(Scenario, u32)> {
    if !thorough {
        return quick_scenarios();
    }
    let steps = [CStep::Out(1), CStep::Out(4), CStep::Out(5), CStep::Err(1), CStep::Err(5), CStep::BadByte, CStep::CloseOut];
    let mut scripts: Vec<Vec<CStep>> = vec![vec![]];
    for a in &steps {
        scripts.push(vec![a.clone()]);
    }
    for a in &steps {
        for b in &steps {
            scripts.push(vec![a.clone(), b.clone()]);
        }
    }
    let mut triples: Vec<Vec<CStep>> = Vec::new();
    if thorough {
        for a in &steps {
            for b in &steps {
                for c in &steps {
                    triples.push(vec![a.clone(), b.clone(), c.clone()]);
                }
            }
        }
    }
    let cc = |script: Vec<CStep>, out, err, stdin_text, timer| Scenario { cap: 4, script, out, err, stdin_text, timer };
    use OutputPolicy::{Capture, Inherit, Null};
    let mut v: Vec<(Scenario, u32)> = Vec::new();
    // both streams captured: every script, both exit codes, bound 1
    for s in &scripts {
        for code in [0, 3] {
            if code == 3 && s.len() == 2 && !thorough {
                continue;
            }
            let mut sc = s.clone();
            sc.push(CStep::Exit(code));
            v.push((cc(sc, Capture, Capture, false, false), 1));
        }
    }
    for s in &triples {
        let mut sc = s.clone();
        sc.push(CStep::Exit(0));
        v.push((cc(sc, Capture, Capture, false, false), 1));
    }
    // the nine policy combinations on representative scripts
    let reps: Vec<Vec<CStep>> = vec![
        vec![CStep::Out(4), CStep::Err(1), CStep::Exit(0)],
        vec![CStep::Out(5), CStep::Err(5), CStep::Exit(3)],
        vec![CStep::Err(5), CStep::Out(1), CStep::Exit(0)],
        vec![CStep::BadByte, CStep::Err(1), CStep::Exit(0)],
    ];
    for o in [Capture, Null, Inherit] {
        for e in [Capture, Null, Inherit] {
            if o == Capture && e == Capture {
                continue;
            }
            for r in &reps {
                v.push((cc(r.clone(), o, e, false, false), 1));
            }
        }
    }
    // stdin writer thread present
    for r in &reps {
        v.push((cc(r.clone(), Capture, Capture, true, false), 1));
    }
    // timer: may land between any two steps; children that never exit
    for s in scripts.iter().filter(|s| s.len() <= 1) {
        v.push((cc(s.clone(), Capture, Capture, false, true), 1));
        let mut sc = s.clone();
        sc.push(CStep::Exit(0));
        v.push((cc(sc, Capture, Capture, false, true), 1));
    }
    // bound 2 on the core
    let core2: Vec<Vec<CStep>> = vec![
        vec![CStep::Out(4), CStep::Out(1), CStep::Exit(0)],
        vec![CStep::Out(5), CStep::Err(5), CStep::Exit(0)],
        vec![CStep::Out(1), CStep::Err(1), CStep::Exit(3)],
        vec![CStep::Err(5), CStep::Exit(0)],
    ];
    for r in &core2 {
        v.push((cc(r.clone(), Capture, Capture, false, false), 2));
    }
    v.push((cc(vec![CStep::Out(4)], Capture, Capture, false, true), 2));
    if thorough {
        for s in scripts.iter().filter(|s| s.len() == 2) {
            let mut sc = s.clone();
            sc.push(CStep::Exit(0));
            v.push((cc(sc, Capture, Capture, false, false), 2));
        }
        for r in &reps {
            v.push((cc(r.clone(), Capture, Capture, true, true), 2));
        }
        v.push((cc(vec![CStep::Out(5), CStep::Err(5), CStep::Exit(0)], Capture, Capture, false, false), 3));
    }
    v
}

/// the every-change subset: one scenario per mechanism (limit on either stream, both, invalid
/// UTF-8, early close, non-zero exit, each policy combination, stdin writer, timer with and
/// without exit), bound 1, bound 2 is thorough-only
fn quick_scenarios() -> Vec<(Scenario, u32)> {
    use OutputPolicy::{Capture, Inherit, Null};
    let cc = |script: Vec<CStep>, out, err, stdin_text, timer| Scenario { cap: 4, script, out, err, stdin_text, timer };
    let q = CStep::Exit;
    let mut v: Vec<(Scenario, u32)> = Vec::new();
    for script in [
        vec![q(0)],
        vec![CStep::Out(4), q(0)],
        vec![CStep::Out(5), q(3)],
        vec![CStep::Err(5), q(0)],
        vec![CStep::BadByte, q(0)],
        vec![CStep::CloseOut, q(0)],
        vec![CStep::Out(4), CStep::Err(1), q(0)],
        vec![CStep::Out(5), CStep::Err(5), q(0)],
        vec![CStep::Out(1), CStep::Out(4), q(0)],
        vec![CStep::CloseOut, CStep::Out(1), q(3)],
    ] {
        v.push((cc(script, Capture, Capture, false, false), 1));
    }
    for o in [Capture, Null, Inherit] {
        for e in [Capture, Null, Inherit] {
            if o == Capture && e == Capture {
                continue;
            }
            v.push((cc(vec![CStep::Out(5), CStep::Err(5), q(3)], o, e, false, false), 1));
        }
    }
    v.push((cc(vec![CStep::Out(4), CStep::Err(1), q(0)], Capture, Capture, true, false), 1));
    v.push((cc(vec![], Capture, Capture, false, true), 1));
    v.push((cc(vec![CStep::Out(4)], Capture, Capture, false, true), 1));
    v.push((cc(vec![CStep::Out(4), q(0)], Capture, Capture, false, true), 1));
    v
}

const SHARDS: u64 = 4;

struct SchedSpace {
    thorough: bool,
}

impl Space for SchedSpace {
    fn id(&self) -> String {
        "scenario-x-preemption-bound".into()
    }
    fn size(&self) -> u64 {
        scenarios(self.thorough).len() as u64 * SHARDS
    }
    fn profile(&self) -> Profile {
        Profile::Fast
    }
    fn chunk(&self) -> u64 {
        1
    }
    fn case_timeout_ms(&self) -> u64 {
        3_600_000
    }
    fn describe(&self, i: u64) -> String {
        let (sc, b) = &scenarios(self.thorough)[(i / SHARDS) as usize];
        format!("all schedules with <= {b} preemptions of {} (shard {} of {SHARDS}: by first deviation from the default schedule)", sc.name(), i % SHARDS)
    }
    fn run(&self, _ctx: &mut Ctx, i: u64) -> Outcome {
        let (sc, bound) = scenarios(self.thorough)[(i / SHARDS) as usize].clone();
        let shard = i % SHARDS;
        let mut root_alt = 0u64;
        let mut stack: Vec<Vec<usize>> = vec![vec![]];
        let mut execs = 0u64;
        let mut with_preemption = 0u64;
        let mut outcomes: BTreeMap<String, u64> = BTreeMap::new();
        let mut replay_checked = false;
        // a case is a whole exploration; if it cannot be finished in its budget it is reported
        // as capped (with what was covered), never as a verdict
        let t0 = std::time::Instant::now();
        let budget = std::time::Duration::from_secs(if self.thorough { 2400 } else { 150 });
        let mut capped = false;
        while let Some(prefix) = stack.pop() {
            if t0.elapsed() > budget {
                capped = true;
                break;
            }
            let r = run_once(&sc, &prefix);
            let is_root = prefix.is_empty();
            // the default schedule is run by every shard (to enumerate the first deviations)
            // but judged and counted by shard 0 only
            let counted = !is_root || shard == 0;
            if counted {
                execs += 1;
                if r.preemptions > 0 {
                    with_preemption += 1;
                }
            }
            let end = r.end.as_ref().map(RunEnd::show).unwrap_or_default();
            if counted {
                *outcomes.entry(end.clone()).or_default() += 1;
            }
            if let Some((class, why)) = r.violation.as_ref().filter(|_| counted) {
                // re-run the schedule before reporting: a violation must reproduce
                let again = run_once(&sc, &r.choices);
                let reproduced = again.violation.as_ref().map(|v| &v.0) == Some(class);
                let mut v = Violation::new(
                    if reproduced { class.clone() } else { format!("NONDETERMINISTIC({class})") },
                    format!("{} schedule {:?}", sc.name(), r.choices),
                    json!({"why": why, "result": end, "trace": r.trace, "bound": bound, "reproduced": reproduced}),
                );
                v.signature = format!("{} :: {class}", sc.name());
                return Outcome {
                    nontrivial: true,
                    class: "violation".into(),
                    violations: vec![v],
                    counters: vec![("executions", execs)],
                    sample: None,
                };
            }
            // determinism self-check: the first execution with >= 6 decisions is replayed
            if !replay_checked && r.choices.len() >= 6 {
                replay_checked = true;
                let again = run_once(&sc, &r.choices);
                if again.trace != r.trace || again.end != r.end {
                    let v = Violation::new(
                        "REPLAY-NOT-IDENTICAL",
                        format!("{} schedule {:?}", sc.name(), r.choices),
                        json!({"first": r.trace, "second": again.trace}),
                    );
                    return Outcome { nontrivial: true, class: "machinery".into(), violations: vec![v], counters: vec![("executions", execs)], sample: None };
                }
                execs += 1;
            }
            for d in prefix.len()..r.choices.len() {
                for alt in 0..r.enabled_counts[d] {
                    if alt == r.choices[d] || r.preempt_cost[d][alt] > bound {
                        continue;
                    }
                    if is_root {
                        // first deviation from the default schedule: dealt round-robin to the shards
                        root_alt += 1;
                        if (root_alt - 1) % SHARDS != shard {
                            continue;
                        }
                    }
                    let mut p = r.choices[..d].to_vec();
                    p.push(alt);
                    stack.push(p);
                }
            }
        }
        let has_err = outcomes.keys().any(|k| k.starts_with("Err"));
        Outcome {
            nontrivial: with_preemption > 0 && (outcomes.len() >= 2 || has_err),
            class: if capped { format!("CAPPED after {} s: bound {bound} not completed", budget.as_secs()) } else { format!("{} distinct outcome(s)", outcomes.len()) },
            violations: vec![],
            counters: vec![("executions", execs), ("executions_with_preemption", with_preemption), ("cases_stopped_at_time_budget", u64::from(capped))],
            sample: Some(json!({"scenario": sc.name(), "bound": bound, "executions": execs, "outcomes": outcomes})),
        }
    }
}

// ---------------------------------------------------------------------------------------
// Capture lifetimes: "the script sees every byte the child wrote" also holds later — after
// the result has been returned from a function, kept across loop iterations, stored in an
// array, passed on, or followed by another captured run. Run through the whole interpreter
// (poisoning build: a reset frame reads as 0xDD) against the bytes the child is known to write.
// ---------------------------------------------------------------------------------------

const PLACEMENTS: &[&str] = &[
    "top-level", "returned-from-function", "assigned-in-loop-read-after", "pushed-in-loop-read-after",
    "parameter-read-in-callee-loop", "array-element-copied", "two-runs-first-read-last", "local-read-after-allocating-loop",
];
const CAPTURES: &[(&str, bool, bool)] = &[("both", true, true), ("stdout-only", true, false), ("stderr-only", false, true)];
const PAYLOADS: &[usize] = &[1, 7, 100, 5000, 70_000];

fn pattern(tag: &str, n: usize, upper: bool) -> Vec<u8> {
    let t = tag.as_bytes();
    (0..n).map(|i| if upper { t[i % t.len()].to_ascii_uppercase() } else { t[i % t.len()] }).collect()
}

struct Lifetimes;

impl Lifetimes {
    fn script(placement: usize, cap: (bool, bool), n: usize) -> (String, Vec<(String, usize)>) {
        let child = {
            let mut p = std::env::current_exe().expect("current exe");
            p.pop();
            p.join("vchild").display().to_string()
        };
        let mut s = format!(
            "do mk(tag) start\nmake c get command(\"{child}\")\nc.arg(\"emitn\")\nc.arg(tag)\nc.arg(\"{n}\")\nc.arg(\"{}\")\nc.arg(\"3\")\n{}{}return c\nend\n",
            n / 2 + 1,
            if cap.0 { "c.stdout_capture()\n" } else { "" },
            if cap.1 { "c.stderr_capture()\n" } else { "" },
        );
        s.push_str("do show(q) start\nshout(q.stdout())\nshout(q.stderr())\nshout(q.exit_code())\nend\n");
        // the results shown, in order: (tag, how many times)
        let mut shown: Vec<(String, usize)> = Vec::new();
        match placement {
            0 => {
                s.push_str("make r get mk(\"ab\").run()\nshow(r)\n");
                shown.push(("ab".into(), 1));
            }
            1 => {
                s.push_str("do go(tag) start\nreturn mk(tag).run()\nend\nmake r get go(\"ab\")\nmake other get go(\"xyz\")\nshow(r)\nshow(other)\n");
                shown.push(("ab".into(), 1));
                shown.push(("xyz".into(), 1));
            }
            2 => {
                s.push_str("make r get mk(\"first\").run()\nmake i get 0\njasi (i small pass 3) start\nr get mk(\"it{i}\").run()\ni get i add 1\nend\nshow(r)\n");
                shown.push(("it2".into(), 1));
            }
            3 => {
                s.push_str("make rs get []\nmake i get 0\njasi (i small pass 3) start\nrs.push(mk(\"el{i}\").run())\ni get i add 1\nend\nmake k get 0\njasi (k small pass 3) start\nshow(rs[k])\nk get k add 1\nend\n");
                for i in 0..3 {
                    shown.push((format!("el{i}"), 1));
                }
            }
            4 => {
                s.push_str("do twice(q) start\nmake k get 0\njasi (k small pass 2) start\nshow(q)\nk get k add 1\nend\nend\ntwice(mk(\"pq\").run())\n");
                shown.push(("pq".into(), 2));
            }
            5 => {
                s.push_str("make arr get [mk(\"uv\").run()]\nmake cp get arr\nshow(cp[0])\nshow(arr[0])\n");
                shown.push(("uv".into(), 2));
            }
            6 => {
                s.push_str("make r1 get mk(\"one\").run()\nmake r2 get mk(\"two\").run()\nshow(r1)\nshow(r2)\nshow(r1)\n");
                shown.push(("one".into(), 1));
                shown.push(("two".into(), 1));
                shown.push(("one".into(), 1));
            }
            _ => {
                s.push_str("do f() start\nmake r get mk(\"lm\").run()\nmake k get 0\nmake z get \"\"\njasi (k small pass 40) start\nz get z add \"xxxxxxxxxxxxxxxx\"\nk get k add 1\nend\nshow(r)\nreturn r\nend\nmake kept get f()\nshow(kept)\n");
                shown.push(("lm".into(), 2));
            }
        }
        (s, shown)
    }
}

impl Space for Lifetimes {
    fn id(&self) -> String {
        "capture-lifetimes-poison".into()
    }
    fn size(&self) -> u64 {
        (PLACEMENTS.len() * CAPTURES.len() * PAYLOADS.len()) as u64
    }
    fn profile(&self) -> Profile {
        Profile::Poison
    }
    fn chunk(&self) -> u64 {
        4
    }
    fn describe(&self, i: u64) -> String {
        let i = i as usize;
        let (p, c, n) = (i / (CAPTURES.len() * PAYLOADS.len()), (i / PAYLOADS.len()) % CAPTURES.len(), PAYLOADS[i % PAYLOADS.len()]);
        format!("result {} / capture {} / {n} bytes on stdout, {} on stderr", PLACEMENTS[p], CAPTURES[c].0, n / 2 + 1)
    }
    fn run(&self, ctx: &mut Ctx, i: u64) -> Outcome {
        use crate::drive::{self, End, Front, M0, M1, RunOpts, TV};
        let i = i as usize;
        let (p, c, n) = (i / (CAPTURES.len() * PAYLOADS.len()), (i / PAYLOADS.len()) % CAPTURES.len(), PAYLOADS[i % PAYLOADS.len()]);
        let cap = (CAPTURES[c].1, CAPTURES[c].2);
        let (src, shown) = Lifetimes::script(p, cap, n);
        let mut want: Vec<TV> = Vec::new();
        for (tag, times) in &shown {
            for _ in 0..*times {
                want.push(if cap.0 { TV::S(pattern(tag, n, false)) } else { TV::Z });
                want.push(if cap.1 { TV::S(pattern(tag, n / 2 + 1, true)) } else { TV::Z });
                want.push(TV::num(3.0));
            }
        }
        for (mode, name) in [(M0, "frame reclamation on"), (M1, "frame reclamation off")] {
            ctx.policy = naijascript::process::HostPolicy { allow_process: true, process: naijascript::process::ProcessCaps::defaults() };
            let o = drive::run_pipeline(ctx, &src, mode, RunOpts::default());
            ctx.policy = naijascript::process::HostPolicy::default();
            let bad = |class: &str, detail: serde_json::Value| {
                Outcome::bad("violation", Violation::new(class, self.describe(i as u64), json!({"mode": name, "script": src, "detail": detail})))
            };
            if !matches!(o.front, Front::Accepted) {
                return bad("script-rejected", json!(o.show()));
            }
            if !matches!(o.end, End::Normal) {
                return bad("captured-run-ended-in-error", json!(o.show()));
            }
            if o.out != want {
                let first = o.out.iter().zip(want.iter()).position(|(a, b)| a != b).unwrap_or(o.out.len().min(want.len()));
                return bad(
                    "captured-output-read-later-differs-from-what-the-child-wrote",
                    json!({"first_differing_value": first, "got": o.out.get(first).map(|v| format!("{v:?}").chars().take(200).collect::<String>()),
                           "want": want.get(first).map(|v| format!("{v:?}").chars().take(200).collect::<String>())}),
                );
            }
        }
        Outcome::ok("ok", true)
    }
}

// ---------------------------------------------------------------------------------------
// The timeout is enforced whatever the child does with its standard input: a child that never
// reads a standard-input text larger than the pipe buffer blocks the writer thread in the
// kernel, which the gate scheduler cannot model (a thread blocked in write() never parks).
// Run for real through the whole interpreter: size of the text x whether the child reads it x
// whether the child outlives the timeout. Generous margins: the child either exits at once
// (timeout 20 s) or sleeps 6 s (timeout 300 ms; the run must be over long before it wakes).
// ---------------------------------------------------------------------------------------

const STDIN_SIZES: &[usize] = &[0, 1000, 65_536, 65_537, 150_000];

struct TimeoutStdin;

impl Space for TimeoutStdin {
    fn id(&self) -> String {
        "timeout-x-stdin-size-x-child-reads".into()
    }
    fn size(&self) -> u64 {
        (STDIN_SIZES.len() * 2 * 2) as u64
    }
    fn profile(&self) -> Profile {
        Profile::Fast
    }
    fn chunk(&self) -> u64 {
        1
    }
    fn case_timeout_ms(&self) -> u64 {
        120_000
    }
    fn describe(&self, i: u64) -> String {
        let i = i as usize;
        let (size, reads, outlives) = (STDIN_SIZES[i / 4], (i / 2) % 2 == 1, i % 2 == 1);
        format!("stdin_text of {size} bytes, child {} it, child {}", if reads { "reads" } else { "never reads" }, if outlives { "sleeps 6 s under timeout_ms(300)" } else { "exits at once under timeout_ms(20000)" })
    }
    fn run(&self, ctx: &mut Ctx, i: u64) -> Outcome {
        use crate::drive::{self, End, Front, M0, RunOpts, TV};
        use naijascript::diagnostics::AsStr;
        let i = i as usize;
        let (size, reads, outlives) = (STDIN_SIZES[i / 4], (i / 2) % 2 == 1, i % 2 == 1);
        let child = {
            let mut p = std::env::current_exe().expect("current exe");
            p.pop();
            p.join("vchild").display().to_string()
        };
        let marker_dir = crate::util::verif_root().join("target/tmp").join(format!("c16t-{}", std::process::id()));
        let _ = std::fs::create_dir_all(&marker_dir);
        for e in std::fs::read_dir(&marker_dir).into_iter().flatten().flatten() {
            let _ = std::fs::remove_file(e.path());
        }
        unsafe { std::env::set_var("VERIF_MARKER", marker_dir.join("m")) };
        let mut src = format!(
            "make c get command(\"{child}\")\nc.arg(\"sleepy\")\nc.arg(\"{}\")\nc.arg(\"{}\")\nc.timeout_ms({})\nc.stdout_capture()\n",
            if outlives { 6000 } else { 0 },
            u8::from(reads),
            if outlives { 300 } else { 20_000 }
        );
        if size > 0 {
            // built at run time: 50-byte pieces doubled up to the size
            src.push_str(&format!("make t get \"{}\"\njasi (t.len() small pass {size}) start t get t add t end\nc.stdin_text(t.slice(0, {size}))\n", "0123456789".repeat(5)));
        }
        src.push_str("make r get c.run()\nshout(r.exit_code())\nshout(r.stdout())\n");
        let caps = naijascript::process::ProcessCaps::defaults();
        ctx.policy = naijascript::process::HostPolicy { allow_process: true, process: caps };
        let t0 = std::time::Instant::now();
        let o = drive::run_pipeline(ctx, &src, M0, RunOpts::default());
        let wall = t0.elapsed();
        ctx.policy = naijascript::process::HostPolicy::default();
        unsafe { std::env::remove_var("VERIF_MARKER") };
        let bad = |class: &str, detail: serde_json::Value| Outcome::bad("violation", Violation::new(class, self.describe(i as u64), json!({"detail": detail, "wall_ms": wall.as_millis() as u64, "obs": o.show()})));
        if !matches!(o.front, Front::Accepted) {
            return bad("script-rejected", json!(null));
        }
        // the child's pid from its marker file
        let pid: Option<i32> = std::fs::read_dir(&marker_dir).into_iter().flatten().flatten().find_map(|e| e.file_name().to_string_lossy().rsplit('.').next().and_then(|p| p.parse().ok()));
        if outlives {
            let timeout = naijascript::runtime::RuntimeErrorKind::ProcessTimeout.as_str();
            if !matches!(&o.end, End::RuntimeError(m) if m == timeout) {
                return bad("timeout-not-reported", json!(null));
            }
            if wall.as_millis() > 4000 {
                return bad("timeout-enforced-too-late", json!(null));
            }
            // ... and the child is not left running
            if let Some(pid) = pid {
                let mut alive = true;
                for _ in 0..40 {
                    if unsafe { libc::kill(pid, 0) } != 0 {
                        alive = false;
                        break;
                    }
                    std::thread::sleep(std::time::Duration::from_millis(50));
                }
                if alive {
                    unsafe { libc::kill(pid, libc::SIGKILL) };
                    return bad("child-left-running-after-timeout", json!({"pid": pid}));
                }
            } else {
                return bad("child-never-started", json!(null));
            }
            Outcome::ok("timeout reported, child gone", true)
        } else {
            if !matches!(o.end, End::Normal) || o.out != vec![TV::num(0.0), TV::S(b"woke".to_vec())] {
                return bad("ordinary-run-wrong-result", json!(null));
            }
            Outcome::ok("ordinary result", true)
        }
    }
}

pub fn spaces(tier: Tier) -> Vec<Box<dyn Space>> {
    vec![Box::new(SchedSpace { thorough: tier == Tier::Thorough }), Box::new(Lifetimes), Box::new(TimeoutStdin)]
}
