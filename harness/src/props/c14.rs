//! C14 — the shipped pipeline matches the library; runs do not influence each other.
//! (a) E1 over programs: the real `naija` (dev and release; file, --eval, stdin) against the
//!     library pipeline with separate arenas.
//! (b) E1 over run sequences: the playground entry point, compiled natively from its real
//!     source, run back to back in one process.

use std::sync::OnceLock;
use std::time::Duration;

use naijascript::diagnostics::Severity;
use naijascript::resolver::Resolver;
use naijascript::runtime::Runtime;
use naijascript::syntax::parser::Parser;
use naijascript::syntax::scanner::Lexer;
use serde_json::json;

use crate::cli::{self, Build, Input};
use crate::drive::Ctx;
use crate::engine::{Outcome, Profile, PropMeta, Space, Tier, Violation};
use crate::gen_prog::Gen;

pub fn meta(_tier: Tier) -> PropMeta {
    PropMeta {
        id: "C14",
        level: "exploration",
        rule: "(a) a deterministic stride through the C01 expression / statement / control-flow / function \
               layers, the C02 storage histories, the C05 array histories and the C09 injection catalogue \
               (rejected programs), plus every examples/ and tests/stress/ script: each is run by the real naija \
               (dev and release) as a file, with --eval and on standard input (6 runs), and compared with the \
               library pipeline (separate arenas): every diagnostic block the library renders must appear \
               verbatim on stdout or stderr, the rest of stdout must be exactly one line per printed value in \
               order, exit status 0 iff no error diagnostic. (b) 14 programs (plain output, string-heavy with \
               frame resets, array-heavy, deep recursion, warnings only, lexical / syntax / semantic error, \
               division by zero, index error, stack overflow, many committed chunks, pool nearly full, empty): \
               every sequence of length <= 3 (thorough 4) is run back to back through the playground's \
               run_source in one single-threaded worker; each element's returned string must equal the string \
               the same program returns when run alone in a fresh process. Non-trivial (a) = the program prints \
               or has a diagnostic; (b) = sequence of >= 2 runs; distinct by program text / sequence"
            .into(),
        assumptions: vec![
            "the stream a diagnostic goes to is not prescribed; only its verbatim presence is".into(),
            "the playground replica is the real wasm/src/lib.rs with the wasm attributes stripped and report_html made the identity (harness/build.rs fails if that no longer applies)".into(),
        ],
        explanation: String::new(),
    }
}

struct LibExpect {
    blocks: Vec<String>,
    lines: Vec<String>,
    has_error: bool,
    stack_overflow: bool,
}

/// what the library pipeline (separate arenas, mode M0) says about `src`
fn lib_expect(ctx: &Ctx, src: &str, filename: &str) -> Result<LibExpect, String> {
    ctx.reset();
    let arena = &ctx.main;
    let frame = &ctx.frame;
    let r = std::panic::catch_unwind(std::panic::AssertUnwindSafe(|| {
        let mut e = LibExpect { blocks: vec![], lines: vec![], has_error: false, stack_overflow: false };
        let lexer = Lexer::new(src, arena);
        let mut parser = Parser::new(lexer, arena);
        let (root, perr) = parser.parse_program();
        if !perr.diagnostics.is_empty() {
            e.blocks.push(perr.render_ansi(src, filename).as_str().to_string());
            e.has_error = true;
            return e;
        }
        let mut resolver = Resolver::new(arena);
        resolver.resolve(root);
        if !resolver.errors.diagnostics.is_empty() {
            e.blocks.push(resolver.errors.render_ansi(src, filename).as_str().to_string());
        }
        if resolver.errors.has_errors() {
            e.has_error = true;
            return e;
        }
        let mut rt = Runtime::new(arena, Some(frame));
        rt.run_with_analysis(root, &resolver.facts, resolver.optimization_plan.as_ref());
        e.lines = rt.output.iter().map(|v| format!("{v}")).collect();
        if !rt.errors.diagnostics.is_empty() {
            let rendered = rt.errors.render_ansi(src, filename).as_str().to_string();
            // Where exactly the native stack budget runs out (which sub-expression of the
            // recursive call) depends on the frames below the interpreter, which differ
            // between the harness process and naija: for a stack overflow only the headline
            // is the library's prediction, not the location.
            let stack = {
                use naijascript::diagnostics::AsStr;
                naijascript::runtime::RuntimeErrorKind::StackOverflow.as_str()
            };
            if rt.errors.diagnostics.iter().any(|d| d.message == stack) {
                e.blocks.push(rendered.lines().next().unwrap_or_default().to_string());
                e.stack_overflow = true;
            } else {
                e.blocks.push(rendered);
            }
            e.has_error = rt.errors.diagnostics.iter().any(|d| d.severity == Severity::Error);
        }
        e
    }));
    r.map_err(|_| crate::drive::take_panic())
}

struct CliVsLib {
    programs: Gen<String>,
}

fn corpus_texts() -> Vec<String> {
    let mut v = Vec::new();
    for dir in [format!("{}/examples", crate::util::repo_root()), format!("{}/tests/stress", crate::util::repo_root())] {
        if let Ok(rd) = std::fs::read_dir(dir) {
            let mut files: Vec<_> = rd.flatten().map(|e| e.path()).collect();
            files.sort();
            for f in files {
                if f.extension().is_some_and(|e| e == "ns")
                    && let Ok(src) = std::fs::read_to_string(&f)
                {
                    v.push(src);
                }
            }
        }
    }
    // a script that reads input itself (from a file / --eval its stdin is empty; on stdin the
    // script has consumed everything): read_line must return the empty string, not hang
    v.push("shout(\"before\")\nmake l get read_line(\"\")\nshout(l.len())\nshout(read_line(\"\") add \"|\")\n".to_string());
    // a program over an analysis limit (no optimisation plan) in which lexical and dynamic
    // binding differ: the CLI must still run it with the resolver's bindings
    {
        let n = naijascript::analysis::limits::DEFAULT_CAPS.max_functions as usize + 8;
        let mut t = String::with_capacity(n * 24);
        for k in 0..n {
            t.push_str(&format!("do z{k}() start end\n"));
        }
        t.push_str("make a get \"global\"\ndo callee() start shout(a) a get \"set-by-callee\" end\ndo caller() start make a get \"local\" callee() shout(a) end\ncaller()\nshout(a)\n");
        v.push(t);
    }
    // scripts around the 8 KiB read size of the CLI's stdin loop
    for target in [8191usize, 8192, 8193, 16_384, 16_385, 30_000] {
        let mut t = String::new();
        let mut k = 0;
        while t.len() + 40 < target {
            t.push_str(&format!("shout(\"line {k}\")\n"));
            k += 1;
        }
        t.push_str("shout(\"end\") #");
        while t.len() < target {
            t.push('p');
        }
        v.push(t);
    }
    v
}

fn strided<T: Clone + Send + Sync + 'static>(g: Gen<T>, want: u64) -> Gen<T> {
    let stride = (g.count / want.max(1)).max(1);
    let n = g.count.div_ceil(stride);
    Gen::new(n, move |i| g.nth((i * stride).min(g.count - 1)))
}

fn programs(thorough: bool) -> Gen<String> {
    use crate::ast::print;
    let per = if thorough { 3000 } else { 220 };
    let mut parts: Vec<Gen<String>> = Vec::new();
    for sp in crate::props::c01::program_gens(thorough) {
        parts.push(strided(sp, per).map(|p| print(&p)));
    }
    parts.push(strided(crate::props::c02::programs_for_c14(), per).map(|p| print(&p)));
    parts.push(strided(crate::props::c05::programs_for_c14(), per).map(|p| print(&p)));
    parts.push(strided(Gen::of(crate::props::c09::injection_texts()), per));
    parts.push(Gen::of(corpus_texts()));
    Gen::or(parts)
}

impl Space for CliVsLib {
    fn id(&self) -> String {
        "naija-vs-library".into()
    }
    fn size(&self) -> u64 {
        self.programs.count
    }
    fn profile(&self) -> Profile {
        Profile::Fast
    }
    fn chunk(&self) -> u64 {
        16
    }
    fn case_timeout_ms(&self) -> u64 {
        300_000
    }
    fn describe(&self, i: u64) -> String {
        self.programs.nth(i)
    }
    fn run(&self, ctx: &mut Ctx, i: u64) -> Outcome {
        let src = self.programs.nth(i);
        if src.trim().is_empty() || src.contains('\0') {
            return Outcome::ok("skip:empty", false);
        }
        let scratch = crate::util::verif_root().join("target/tmp").join(format!("w{}", std::process::id())).join("case.ns");
        let mut runs = 0;
        for build in [Build::Dev, Build::Release] {
            // cut points for the piecewise stdin delivery: the middle of the text (moved to a
            // character boundary) and, for long scripts, offset 8192
            let mut mid = src.len() / 2;
            while mid > 0 && !src.is_char_boundary(mid) {
                mid -= 1;
            }
            let mut cuts = vec![mid];
            if src.len() > 8200 && src.is_char_boundary(8192) {
                cuts = vec![mid.min(8192), 8192.max(mid)];
                cuts.dedup();
            }
            cuts.retain(|&c| c > 0 && c < src.len());
            for mode in 0..4 {
                // the piecewise mode needs real waiting: release build only
                if mode == 3 && (build == Build::Dev || cuts.is_empty()) {
                    continue;
                }
                // a single argv string is limited to 128 KiB by the kernel: --eval only below that
                if mode == 1 && src.len() > 100_000 {
                    continue;
                }
                let (input, filename) = match mode {
                    0 => (Input::File(&src), scratch.display().to_string()),
                    1 => (Input::Eval(&src), "<eval>".to_string()),
                    2 => (Input::Stdin(&src), "<stdin>".to_string()),
                    _ => (Input::StdinPieces(&src, &cuts), "<stdin>".to_string()),
                };
                let want = match lib_expect(ctx, &src, &filename) {
                    Ok(w) => w,
                    Err(p) => return Outcome::ok(format!("skip:library-panics({})", p.chars().take(40).collect::<String>()), false),
                };
                let r = cli::run(build, input, None, Duration::from_secs(120));
                runs += 1;
                let input_desc = src.clone();
                let tag = format!("{} {}", build.name(), ["file", "--eval", "stdin", "stdin-in-pieces"][mode]);
                let bad = |class: &str, detail: serde_json::Value| {
                    let mut v = Violation::new(class, input_desc.clone(), json!({"how": tag, "detail": detail}));
                    v.signature = format!("{class} :: {input_desc}");
                    Outcome::bad("violation", v)
                };
                if r.timed_out {
                    return bad("naija-hang", json!(null));
                }
                if let Some(why) = r.crashed() {
                    return bad("naija-crash", json!(why));
                }
                let mut stdout = String::from_utf8_lossy(&r.stdout).to_string();
                let stderr = String::from_utf8_lossy(&r.stderr).to_string();
                if want.stack_overflow {
                    // keep only what was printed before the diagnostic; how many lines a
                    // program prints on its way into the overflow is depth dependent too
                    if let Some(pos) = want.blocks.last().and_then(|b| stdout.find(b.as_str())) {
                        let before: String = stdout[..pos].to_string();
                        let want_out: String = want.lines.iter().map(|l| format!("{l}\n")).collect();
                        if !(want_out.starts_with(&before) || before.starts_with(&want_out)) {
                            return bad("printed-values-differ", json!({"naija": before.chars().take(600).collect::<String>(), "library": want_out.chars().take(600).collect::<String>()}));
                        }
                        if r.code == Some(0) {
                            return bad("exit-status-wrong", json!({"code": r.code, "library_has_error": true}));
                        }
                        continue;
                    }
                    return bad("diagnostic-block-missing-or-different", json!({"expected_block": want.blocks.last(), "stdout": stdout.chars().take(600).collect::<String>()}));
                }
                for b in &want.blocks {
                    if let Some(pos) = stdout.find(b.as_str()) {
                        stdout.replace_range(pos..pos + b.len(), "");
                    } else if !stderr.contains(b.as_str()) {
                        return bad("diagnostic-block-missing-or-different", json!({"expected_block": b, "stdout": stdout.chars().take(600).collect::<String>(), "stderr": stderr.chars().take(300).collect::<String>()}));
                    }
                }
                let want_out: String = want.lines.iter().map(|l| format!("{l}\n")).collect();
                if stdout != want_out {
                    return bad("printed-values-differ", json!({"naija": stdout.chars().take(600).collect::<String>(), "library": want_out.chars().take(600).collect::<String>()}));
                }
                let ok_exit = r.code == Some(0);
                if ok_exit == want.has_error {
                    return bad("exit-status-wrong", json!({"code": r.code, "library_has_error": want.has_error}));
                }
            }
        }
        let w = lib_expect(ctx, &src, "x").ok();
        let nontrivial = w.is_some_and(|w| !w.lines.is_empty() || !w.blocks.is_empty());
        Outcome { nontrivial, class: "same".into(), violations: vec![], counters: vec![("cli_runs", runs)], sample: None }
    }
}

// ---------------------------------------------------------------------------------------
// (b) playground sequences
// ---------------------------------------------------------------------------------------

pub fn playground_programs() -> Vec<(&'static str, String)> {
    vec![
        ("plain", "make x get 2 shout(x times 21) shout(\"hi\")".into()),
        ("string-heavy", "make s get \"\" make i get 0 jasi (i small pass 300) start s get s add \"ab\" i get i add 1 if to say (i mod 50 na 0) start shout(s.len()) end end do f(p) start return p add \"!\" end shout(f(s).slice(0, 5))".into()),
        ("array-heavy", "make a get [] make i get 0 jasi (i small pass 200) start a.push([i, \"v{i}\"]) i get i add 1 end a.reverse() shout(a[0]) shout(a.len()) make b get a b[0][0] get \"changed\" shout(a[0][0])".into()),
        ("deep-recursion", "do f(n) start if to say (n small pass 1) start return 0 end return 1 add f(n minus 1) end shout(f(1500))".into()),
        ("warnings-only", "make unused get 1 do never() start return 1 end shout(\"w\")".into()),
        ("lexical-error", "make x get 1 @ shout(x)".into()),
        ("syntax-error", "make get 5 shout(1)".into()),
        ("semantic-error", "shout(nope) shout(1)".into()),
        ("division-by-zero", "shout(\"before\") make z get 0 shout(1 divide z) shout(\"after\")".into()),
        ("index-error", "make a get [1] shout(a[0]) shout(a[3])".into()),
        ("stack-overflow", "shout(\"s\") do inf() start return inf() end shout(inf())".into()),
        ("many-chunks", "make s get \"0123456789abcdef\" make i get 0 jasi (i small pass 17) start s get s add s i get i add 1 end shout(s.len()) make a get [] make j get 0 jasi (j small pass 20000) start a.push(j) j get j add 1 end shout(a.len())".into()),
        ("pool-nearly-full", "make a get [] make i get 0 jasi (i small pass 16000) start a.push(\"s\" add i) i get i add 1 end shout(a[15999]) shout(a[0])".into()),
        ("empty", String::new()),
    ]
}

fn solo_results() -> &'static Vec<String> {
    static SOLO: OnceLock<Vec<String>> = OnceLock::new();
    SOLO.get_or_init(|| {
        let exe = std::env::current_exe().unwrap();
        (0..playground_programs().len())
            .map(|k| {
                let out = std::process::Command::new(&exe).arg("solo").arg(k.to_string()).output().expect("solo run");
                if !out.status.success() {
                    return format!("<solo run failed: {:?}>", out.status);
                }
                serde_json::from_slice::<String>(&out.stdout).unwrap_or_else(|_| "<solo run: bad output>".into())
            })
            .collect()
    })
}

/// `vh solo <k>`: one program, alone, in a fresh process
pub fn solo_main(k: usize) {
    // `shout` prints: keep our own stdout for the result
    let saved = unsafe { libc::dup(1) };
    unsafe {
        let null = libc::open(c"/dev/null".as_ptr(), libc::O_WRONLY);
        libc::dup2(null, 1);
    }
    let progs = playground_programs();
    let r = crate::playground::run_source(&progs[k].1, "play.ns");
    let s = serde_json::to_string(&r).unwrap();
    unsafe {
        libc::write(saved, s.as_ptr().cast(), s.len());
    }
}

struct Sequences {
    max_len: u32,
}

impl Sequences {
    fn seq(&self, mut i: u64) -> Vec<usize> {
        let n = playground_programs().len() as u64;
        let mut len = 1;
        loop {
            let c = n.pow(len);
            if i < c {
                break;
            }
            i -= c;
            len += 1;
        }
        let mut v = Vec::new();
        for _ in 0..len {
            v.push((i % n) as usize);
            i /= n;
        }
        v.reverse();
        v
    }
}

impl Space for Sequences {
    fn id(&self) -> String {
        format!("playground-sequences-le{}", self.max_len)
    }
    fn size(&self) -> u64 {
        let n = playground_programs().len() as u64;
        (1..=self.max_len).map(|l| n.pow(l)).sum()
    }
    fn profile(&self) -> Profile {
        Profile::Poison
    }
    fn chunk(&self) -> u64 {
        32
    }
    fn case_timeout_ms(&self) -> u64 {
        300_000
    }
    fn describe(&self, i: u64) -> String {
        let p = playground_programs();
        format!("run back to back: {:?}", self.seq(i).iter().map(|&k| p[k].0).collect::<Vec<_>>())
    }
    fn run(&self, _ctx: &mut Ctx, i: u64) -> Outcome {
        let progs = playground_programs();
        let solo = solo_results();
        let seq = self.seq(i);
        for (pos, &k) in seq.iter().enumerate() {
            let r = std::panic::catch_unwind(|| crate::playground::run_source(&progs[k].1, "play.ns"));
            let names: Vec<&str> = seq.iter().map(|&k| progs[k].0).collect();
            match r {
                Err(_) => {
                    let p = crate::drive::take_panic();
                    return Outcome::bad("violation", Violation::new(format!("playground-panic: {p}"), format!("{names:?} at position {pos}"), json!(null)));
                }
                Ok(got) => {
                    if got != solo[k] {
                        return Outcome::bad(
                            "violation",
                            Violation::new(
                                "result-depends-on-history",
                                format!("{names:?} at position {pos}"),
                                json!({"program": progs[k].0, "alone": solo[k].chars().take(400).collect::<String>(), "in_sequence": got.chars().take(400).collect::<String>()}),
                            ),
                        );
                    }
                }
            }
        }
        Outcome::ok("same-as-alone", seq.len() >= 2)
    }
}

pub fn spaces(tier: Tier) -> Vec<Box<dyn Space>> {
    let t = tier == Tier::Thorough;
    vec![Box::new(CliVsLib { programs: programs(t) }), Box::new(Sequences { max_len: if t { 4 } else { 3 } })]
}
