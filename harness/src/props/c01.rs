//! C01 — program results equal the documented semantics (E1, mode M0 vs reference).

use crate::ast::*;
use crate::drive::Ctx;
use crate::engine::{Outcome, Profile, PropMeta, Space, Tier};
use crate::gen_prog::{Gen, pair, seq_range, triple};
use crate::props::refcmp::{self, CmpOpts};

pub fn meta(_tier: Tier) -> PropMeta {
    PropMeta {
        id: "C01",
        level: "exploration",
        rule: "programs are generated as harness ASTs by exact-size exhaustive generators (layers: \
               expressions to operator depth 2 over typed leaf alphabets; statement sequences; control-flow \
               nestings with comot/next/return at every position; function/recursion templates), printed \
               with minimal parentheses and run on the real pipeline (M0) and on the independent reference \
               interpreter; non-trivial = accepted, specified by the reference, and printing at least one \
               value or ending in a runtime error; distinct by program text"
            .into(),
        assumptions: vec![
            "adopted conventions of DESIGN.md Appendix C (number formatting = Rust Display, array printing, numeric `na` within 1e-12, bytewise string order, false < true, pop() of empty = null, round half away from zero)".into(),
            "constructs the documentation leaves open are generated but not compared (counted under skip:*)".into(),
            "bounds: the stated layer depths and leaf alphabets; nothing is claimed beyond them".into(),
        ],
        explanation: String::new(),
    }
}

pub struct ProgSpace {
    pub id: String,
    pub generator: Gen<Vec<S>>,
    pub profile: Profile,
    pub chunk: u64,
}

impl Space for ProgSpace {
    fn id(&self) -> String {
        format!("{}-{}", self.id, self.profile.dir())
    }
    fn size(&self) -> u64 {
        self.generator.count
    }
    fn profile(&self) -> Profile {
        self.profile
    }
    fn chunk(&self) -> u64 {
        self.chunk
    }
    fn describe(&self, i: u64) -> String {
        print(&self.generator.nth(i))
    }
    fn run(&self, ctx: &mut Ctx, i: u64) -> Outcome {
        let prog = self.generator.nth(i);
        refcmp::compare(ctx, &prog, &CmpOpts::default())
    }
}

pub fn spaces(tier: Tier) -> Vec<Box<dyn Space>> {
    let t = tier == Tier::Thorough;
    let mut v: Vec<Box<dyn Space>> = Vec::new();
    let mut add = |id: &str, g: Gen<Vec<S>>| {
        v.push(Box::new(ProgSpace { id: id.to_string(), generator: g, profile: Profile::Fast, chunk: 4096 }));
    };
    let ex = Exprs::new(t);
    add("L1-expr-num", with_preamble(&ex.num2));
    add("L1-expr-str", with_preamble(&ex.str2));
    add("L1-expr-bool", with_preamble(&ex.bool2));
    add("L1-expr-arr", with_preamble(&ex.arr1));
    add("L1-expr-cond", cond_programs(&ex));
    add("L2-stmt-seq", stmt_sequences(if t { 4 } else { 3 }));
    add("L3-control-flow", control_flow(t));
    add("L4-functions", functions(t));
    add("L5-wide", wide_programs(t));
    add("L6-deep-hosts", deep_hosts(t));
    v
}

// ---------------------------------------------------------------------------------------
// L6 depth: a control-flow kernel means the same however deeply it sits: every kernel inside
// d nested hosts (bare blocks, taken ifs, one-iteration loops, called functions, and a mix) for
// every d in 0..=12 [0..=24]. The scope / environment stack is that deep while the kernel runs.
// ---------------------------------------------------------------------------------------

fn deep_hosts(thorough: bool) -> Gen<Vec<S>> {
    let max_d: u32 = if thorough { 24 } else { 12 };
    let kernels = kernels();
    let mut cases: Vec<(usize, u8, u32)> = Vec::new();
    for k in 0..kernels.len() {
        for host in 0..5u8 {
            for d in 0..=max_d {
                cases.push((k, host, d));
            }
        }
    }
    Gen::of(cases).map(move |(k, host, d)| {
        let mut body = kernels[k].clone();
        for level in (0..d).rev() {
            let h = if host == 4 { (level % 4) as u8 } else { host };
            body = match h {
                0 => vec![S::Block(body)],
                1 => vec![S::If(E::Bool(true), body, Some(vec![shout(st("else"))]))],
                2 => {
                    let c = format!("h{level}");
                    let mut b = vec![S::Set(c.clone(), bin(Op::Add, var(&c), num("1")))];
                    b.extend(body);
                    vec![S::Make(c.clone(), Some(num("0"))), S::Loop(bin(Op::Lt, var(&c), num("1")), b)]
                }
                _ => {
                    let f = format!("hf{level}");
                    vec![func(&f, &[], body), S::Expr(call(&f, vec![]))]
                }
            };
        }
        let mut p = vec![make("acc", st(""))];
        p.extend(body);
        p.push(shout(var("acc")));
        p
    })
}

/// small programs around loops with `next` / `comot` / `return`, shadowing and accumulation;
/// they only use the global `acc` and their own fresh names
fn kernels() -> Vec<Vec<S>> {
    let add_acc = |e: E| set("acc", bin(Op::Add, var("acc"), e));
    let counted = |c: &str, n: &str, body: Vec<S>| -> Vec<S> {
        let mut b = vec![S::Set(c.to_string(), bin(Op::Add, var(c), num("1")))];
        b.extend(body);
        vec![S::Make(c.to_string(), Some(num("0"))), S::Loop(bin(Op::Lt, var(c), num(n)), b)]
    };
    vec![
        // `next` skips the rest of the body, the loop goes on
        counted("k", "4", vec![S::If(bin(Op::Eq, var("k"), num("2")), vec![S::Next], None), add_acc(var("k"))]),
        // `comot` leaves the loop
        counted("k", "4", vec![S::If(bin(Op::Eq, var("k"), num("3")), vec![S::Break], None), add_acc(var("k"))]),
        // `next` in the inner loop of two
        counted("k", "2", {
            let mut inner = counted("j", "3", vec![S::If(bin(Op::Eq, var("j"), num("2")), vec![S::Next], None), add_acc(bin(Op::Add, var("k"), var("j")))]);
            inner.push(add_acc(st("|")));
            inner
        }),
        // `comot` in the inner loop only leaves the inner loop
        counted("k", "3", {
            let mut inner = counted("j", "3", vec![S::If(bin(Op::Eq, var("j"), num("2")), vec![S::Break], None), add_acc(var("j"))]);
            inner.push(add_acc(st(";")));
            inner
        }),
        // a function returning from inside a loop inside a block
        vec![
            func("kf", &["n"], vec![S::Block(counted("k", "5", vec![S::If(bin(Op::Gt, var("k"), var("n")), vec![S::Ret(Some(bin(Op::Mul, var("k"), num("10"))))], None)])), S::Ret(Some(num("0")))]),
            add_acc(call("kf", vec![num("2")])),
            add_acc(call("kf", vec![num("9")])),
        ],
        // shadowing in a nested block, the outer value comes back
        vec![make("w", st("outer")), S::Block(vec![make("w", st("inner")), add_acc(var("w"))]), add_acc(var("w"))],
        // recursion with an accumulator parameter
        vec![
            func("kr", &["n", "a"], vec![S::If(bin(Op::Lt, var("n"), num("1")), vec![S::Ret(Some(var("a")))], None), S::Ret(Some(call("kr", vec![bin(Op::Sub, var("n"), num("1")), bin(Op::Add, var("a"), var("n"))])))]),
            add_acc(call("kr", vec![num("4"), num("0")])),
        ],
        // `next` as the last statement, `comot` under an else
        counted("k", "3", vec![add_acc(var("k")), S::If(bin(Op::Lt, var("k"), num("2")), vec![S::Next], Some(vec![S::Break]))]),
    ]
}

// ---------------------------------------------------------------------------------------
// L5 width: a valid program stays valid (and means the same) however many sibling statements,
// elements, arguments, branches or interpolation pieces it has. Every width 1..=300 and a few
// larger ones, per shape; nothing here nests deeper than a handful of levels.
// ---------------------------------------------------------------------------------------

fn wide_programs(thorough: bool) -> Gen<Vec<S>> {
    let mut widths: Vec<u32> = (1..=300).collect();
    widths.extend([320, 400, 511, 512, 513, 600, 1000]);
    if thorough {
        widths.extend([1500, 2000, 3000, 5000]);
    }
    const SHAPES: u8 = 11;
    let mut cases: Vec<(u8, u32)> = Vec::new();
    for sh in 0..SHAPES {
        for &w in &widths {
            cases.push((sh, w));
        }
    }
    Gen::of(cases).map(|(shape, n)| wide_program(shape, n))
}

fn wide_program(shape: u8, n: u32) -> Vec<S> {
    let k = |i: u32| num(&i.to_string());
    let last = n - 1;
    match shape {
        // n declarations in a row
        0 => {
            let mut p: Vec<S> = (0..n).map(|i| S::Make(format!("v{i}"), Some(k(i)))).collect();
            p.push(shout(bin(Op::Add, var("v0"), var(&format!("v{last}")))));
            p
        }
        // one array literal with n elements
        1 => vec![make("a", E::Arr((0..n).map(k).collect())), shout(meth(var("a"), "len", vec![])), shout(idx(var("a"), k(last)))],
        // n print statements
        2 => (0..n).map(|i| shout(k(i))).collect(),
        // a lookup function of n `if` lines
        3 => {
            let mut body: Vec<S> = (0..n).map(|i| S::If(bin(Op::Eq, var("q"), k(i)), vec![S::Ret(Some(k(i * 2)))], None)).collect();
            body.push(S::Ret(Some(st("none"))));
            vec![func("look", &["q"], body), shout(call("look", vec![k(last)])), shout(call("look", vec![k(n)]))]
        }
        // a call whose three arguments are n-element arrays
        4 => {
            let arr = |off: u32| E::Arr((0..n).map(|i| k(i + off)).collect());
            vec![
                func("pick", &["x", "y", "z"], vec![S::Ret(Some(bin(Op::Add, bin(Op::Add, idx(var("x"), k(last)), idx(var("y"), k(0))), idx(var("z"), k(last)))))]),
                shout(call("pick", vec![arr(0), arr(1000), arr(2000)])),
            ]
        }
        // n method-call statements (identifier-led)
        5 => {
            let mut p = vec![make("a", E::Arr(vec![]))];
            p.extend((0..n).map(|i| S::Expr(meth(var("a"), "push", vec![k(i)]))));
            p.push(shout(meth(var("a"), "len", vec![])));
            p.push(shout(idx(var("a"), k(last))));
            p
        }
        // n assignments (identifier-led)
        6 => {
            let mut p = vec![make("x", k(0))];
            p.extend((0..n).map(|_| set("x", bin(Op::Add, var("x"), k(1)))));
            p.push(shout(var("x")));
            p
        }
        // n string literals with an interpolation each, inside a loop body
        7 => {
            let mut body: Vec<S> = vec![set("i", bin(Op::Add, var("i"), k(1)))];
            body.extend((0..n).map(|j| make(&format!("s{j}"), E::Str(vec![SP::Lit(format!("p{j}:")), SP::Var("i".into())]))));
            body.push(shout(var(&format!("s{last}"))));
            vec![make("i", k(0)), S::Loop(bin(Op::Lt, var("i"), k(2)), body)]
        }
        // n sibling blocks, each with its own declaration
        8 => {
            let mut p = vec![make("t", k(0))];
            p.extend((0..n).map(|i| S::Block(vec![make("w", k(i)), set("t", bin(Op::Add, var("t"), var("w")))])));
            p.push(shout(var("t")));
            p
        }
        // n function definitions, each called once
        9 => {
            let mut p: Vec<S> = (0..n).map(|i| func(&format!("f{i}"), &[], vec![S::Ret(Some(k(i)))])).collect();
            p.push(shout(bin(Op::Add, call("f0", vec![]), call(&format!("f{last}"), vec![]))));
            p
        }
        // an n-way if / else-if ladder is not expressible flat; n two-armed conditionals instead
        _ => {
            let mut p = vec![make("c", k(0))];
            p.extend((0..n).map(|i| S::If(bin(Op::Gt, k(i), k(n / 2)), vec![set("c", bin(Op::Add, var("c"), k(1)))], Some(vec![set("c", bin(Op::Sub, var("c"), k(1)))]))));
            p.push(shout(var("c")));
            p
        }
    }
}

// ---------------------------------------------------------------------------------------
// L1 expressions
// ---------------------------------------------------------------------------------------

fn preamble() -> Vec<S> {
    vec![
        make("n", num("3")),
        make("m", num("2.5")),
        make("s", st("ab")),
        make("t", st("")),
        make("b", E::Bool(true)),
        make("c", E::Bool(false)),
        S::Make("z".into(), None),
        make("a", E::Arr(vec![num("1"), st("x"), E::Bool(true), E::Arr(vec![num("7")])])),
        make("e", E::Arr(vec![])),
        // identity with a visible side effect (makes evaluation order and short-circuiting observable)
        func("fx", &["v"], vec![shout(st("fx")), S::Ret(Some(var("v")))]),
        func("fy", &["v"], vec![shout(st("fy")), S::Ret(Some(var("v")))]),
        func("two", &["v", "w"], vec![S::Ret(Some(E::Arr(vec![var("v"), var("w")])))]),
    ]
}

fn with_preamble(g: &Gen<E>) -> Gen<Vec<S>> {
    g.map(|e| {
        let mut p = preamble();
        p.push(shout(e));
        p
    })
}

pub struct Exprs {
    pub num2: Gen<E>,
    pub str2: Gen<E>,
    pub bool2: Gen<E>,
    pub arr1: Gen<E>,
    pub bool1: Gen<E>,
}

fn g<T: Clone + Send + Sync + 'static>(v: Vec<T>) -> Gen<T> {
    Gen::of(v)
}

fn bin_gen(ops: &[Op], a: &Gen<E>, b: &Gen<E>) -> Gen<E> {
    triple(&g(ops.to_vec()), a, b, |op, x, y| bin(op, x, y))
}

fn meth0(recv: &Gen<E>, names: &[&str]) -> Gen<E> {
    let names: Vec<String> = names.iter().map(|s| (*s).to_string()).collect();
    pair(recv, &g(names), |r, m| meth(r, &m, vec![]))
}

impl Exprs {
    pub fn new(thorough: bool) -> Exprs {
        const ARITH: &[Op] = &[Op::Add, Op::Sub, Op::Mul, Op::Div, Op::Mod];
        const CMP: &[Op] = &[Op::Eq, Op::Gt, Op::Lt];
        let n0 = g(vec![num("0"), num("1"), num("2"), num("3"), num("2.5"), num("10"), var("n"), var("m")]);
        let s0 = g(vec![st(""), st("a"), st("ab"), st("a b"), st("Ab "), st("é"), var("s"), var("t")]);
        let b0 = g(vec![E::Bool(true), E::Bool(false), var("b"), var("c")]);
        let z0 = g(vec![E::Null, var("z")]);
        let a0 = g(vec![
            E::Arr(vec![]),
            E::Arr(vec![num("1")]),
            E::Arr(vec![st("a"), num("2")]),
            var("a"),
            var("e"),
        ]);
        let any0 = Gen::or(vec![n0.clone(), s0.clone(), b0.clone(), z0.clone(), a0.clone()]);
        let fx = |x: &Gen<E>| x.map(|e| call("fx", vec![e]));

        // ---- depth 1
        let n1 = Gen::or(vec![
            bin_gen(ARITH, &n0, &n0),
            n0.map(|e| E::Neg(Box::new(e))),
            meth0(&n0, &["abs", "sqrt", "floor", "ceil", "round"]),
            meth0(&n0.map(|e| E::Neg(Box::new(e))), &["abs", "floor", "ceil", "round"]),
            meth0(&s0, &["len", "to_number"]),
            pair(&s0, &s0, |h, n| meth(h, "find", vec![n])),
            meth0(&a0, &["len"]),
            g(vec![idx(var("a"), num("0")), idx(idx(var("a"), num("3")), num("0")), meth(st("12.5"), "to_number", vec![]), meth(st("x1"), "to_number", vec![])]),
            // index errors
            g(vec![
                idx(var("a"), num("4")),
                idx(var("a"), E::Neg(Box::new(num("1")))),
                idx(var("a"), num("0.5")),
                idx(var("e"), num("0")),
                idx(var("a"), var("m")),
            ]),
            fx(&n0),
        ]);
        let interp = g(vec![
            E::Str(vec![SP::Lit("x".into()), SP::Var("n".into()), SP::Lit("y".into())]),
            E::Str(vec![SP::Var("m".into())]),
            E::Str(vec![SP::Var("s".into()), SP::Var("t".into()), SP::Var("b".into())]),
            E::Str(vec![SP::Lit("z=".into()), SP::Var("z".into())]),
            E::Str(vec![SP::Var("a".into()), SP::Lit(" ".into()), SP::Var("e".into())]),
            E::Str(vec![SP::Lit("{".into()), SP::Var("n".into()), SP::Lit("}".into())]),
            E::Str(vec![SP::Lit("{n}".into())]),
            E::Str(vec![SP::Lit("a}b".into())]),
            E::Str(vec![SP::Lit("q\"uo\\te\n\ttab".into())]),
            E::Str(vec![SP::Lit("a\n".into()), SP::Var("n".into())]),
            E::Str(vec![SP::Var("s".into()), SP::Lit("\t\"".into()), SP::Var("m".into()), SP::Lit("\\{".into())]),
            E::Str(vec![SP::Lit("é".into()), SP::Var("s".into()), SP::Lit("😆".into())]),
        ]);
        let slice_i = g(vec![num("0"), num("1"), E::Neg(Box::new(num("1"))), num("0.5"), num("10"), E::Neg(Box::new(num("10")))]);
        let s1 = Gen::or(vec![
            bin_gen(&[Op::Add], &s0, &s0),
            bin_gen(&[Op::Add], &s0, &n0),
            bin_gen(&[Op::Add], &n0, &s0),
            interp.clone(),
            triple(&s0, &slice_i, &slice_i, |s, i, j| meth(s, "slice", vec![i, j])),
            meth0(&s0, &["to_uppercase", "to_lowercase", "trim"]),
            triple(&s0, &g(vec![st(""), st("a"), st("b")]), &g(vec![st(""), st("X"), st("aa")]), |s, o, n| {
                meth(s, "replace", vec![o, n])
            }),
            any0.map(|e| call("to_string", vec![e])),
            any0.map(|e| call("typeof", vec![e])),
            pair(&a0, &g(vec![st(""), st(","), st("ab")]), |a, s| meth(a, "join", vec![s])),
            g(vec![
                idx(var("a"), num("1")),
                meth(E::Arr(vec![E::Arr(vec![st("p"), st("q")]), num("1"), E::Null, E::Bool(true)]), "join", vec![st("-")]),
                call("to_string", vec![E::Arr(vec![st("p"), E::Arr(vec![st("q"), num("0.1")])])]),
                call("typeof", vec![call("shout", vec![num("1")])]),
            ]),
            fx(&s0),
        ]);
        let b1 = Gen::or(vec![
            bin_gen(CMP, &n0, &n0),
            bin_gen(CMP, &s0, &s0),
            bin_gen(CMP, &b0, &b0),
            bin_gen(CMP, &z0, &any0.clone()),
            bin_gen(CMP, &any0, &z0),
            b0.map(|e| E::Not(Box::new(e))),
            z0.map(|e| E::Not(Box::new(e))),
            bin_gen(&[Op::And, Op::Or], &b0, &b0),
            bin_gen(&[Op::And, Op::Or], &z0, &b0),
            bin_gen(&[Op::And, Op::Or], &b0, &z0),
            bin_gen(&[Op::And, Op::Or], &fx(&b0), &fx(&b0)),
            bin_gen(&[Op::And, Op::Or], &fx(&z0), &fx(&z0)),
            g(vec![idx(var("a"), num("2"))]),
        ]);
        let one_each = g(vec![num("1"), st("a"), E::Bool(true), E::Null, E::Arr(vec![num("2")]), var("n"), var("s"), var("a")]);
        let arr1 = Gen::or(vec![
            a0.clone(),
            pair(&one_each, &one_each, |x, y| E::Arr(vec![x, y])),
            pair(&s0, &g(vec![st(""), st("a"), st(" "), st("ab")]), |s, p| meth(s, "split", vec![p])),
            g(vec![idx(var("a"), num("3")), E::Arr(vec![call("fx", vec![num("1")]), call("fx", vec![num("2")])])]),
            // evaluation order inside index chains and calls: receiver, then indices left to
            // right (two identities with different side effects), and which error comes first
            g(vec![
                idx(idx(var("a"), call("fx", vec![num("3")])), call("fy", vec![num("0")])),
                idx(call("fx", vec![var("a")]), call("fy", vec![num("1")])),
                idx(call("fx", vec![idx(var("a"), call("fy", vec![num("3")]))]), call("fy", vec![num("0")])),
                idx(idx(var("a"), num("9")), bin(Op::Div, num("1"), num("0"))),
                idx(idx(var("a"), bin(Op::Div, num("1"), num("0"))), num("9")),
                idx(var("e"), call("fy", vec![num("0")])),
                idx(E::Arr(vec![call("fx", vec![num("1")]), call("fy", vec![num("2")])]), call("fx", vec![num("1")])),
                meth(idx(var("a"), call("fx", vec![num("3")])), "join", vec![call("fy", vec![st("-")])]),
                meth(call("fx", vec![st("abc")]), "slice", vec![call("fy", vec![num("0")]), call("fx", vec![num("2")])]),
                call("two", vec![idx(var("a"), call("fx", vec![num("0")])), idx(var("a"), call("fy", vec![num("1")]))]),
                bin(Op::Add, idx(var("a"), call("fx", vec![num("0")])), idx(idx(var("a"), call("fy", vec![num("3")])), call("fx", vec![num("0")]))),
            ]),
        ]);

        // ---- depth 2: operators over reduced depth<=1 operand sets (every operator pair, both
        // nestings; the printer inserts parentheses only where the precedence table needs them)
        let nc0 = g(if thorough {
            vec![num("2"), num("2.5"), num("10"), num("0"), var("n"), var("m")]
        } else {
            vec![num("2"), num("2.5"), num("0"), var("n")]
        });
        let nc1 = Gen::or(vec![
            nc0.clone(),
            bin_gen(ARITH, &nc0, &nc0),
            nc0.map(|e| E::Neg(Box::new(e))),
            g(vec![call("fx", vec![num("4")]), meth(var("s"), "len", vec![]), meth(E::Neg(Box::new(num("2.5"))), "round", vec![]), idx(var("a"), num("0"))]),
        ]);
        let num2 = Gen::or(vec![
            n1.clone(),
            bin_gen(ARITH, &nc1, &nc1),
            nc1.map(|e| E::Neg(Box::new(e))),
            meth0(&nc1, &["abs", "floor"]),
        ]);
        let sc0 = g(vec![st("a"), st(""), var("s")]);
        let sc1 = Gen::or(vec![
            sc0.clone(),
            bin_gen(&[Op::Add], &sc0, &sc0),
            bin_gen(&[Op::Add], &sc0, &nc0),
            bin_gen(&[Op::Add], &nc0, &sc0),
            g(vec![
                E::Str(vec![SP::Lit("<".into()), SP::Var("n".into()), SP::Lit(">".into())]),
                meth(var("s"), "to_uppercase", vec![]),
                call("to_string", vec![var("m")]),
                call("fx", vec![st("q")]),
            ]),
        ]);
        let str2 = Gen::or(vec![
            s1.clone(),
            bin_gen(&[Op::Add], &sc1, &sc1),
            bin_gen(&[Op::Add], &sc1, &nc1),
            bin_gen(&[Op::Add], &nc1, &sc1),
            meth0(&sc1, &["to_uppercase", "trim"]),
            pair(&sc1, &sc1, |a, b| meth(a, "replace", vec![b, st("_")])),
        ]);
        let bc0 = g(vec![E::Bool(true), E::Bool(false), var("b"), E::Null]);
        let bc1 = Gen::or(vec![
            bc0.clone(),
            bin_gen(CMP, &nc0, &nc0),
            bin_gen(&[Op::And, Op::Or], &bc0, &bc0),
            bc0.map(|e| E::Not(Box::new(e))),
            g(vec![
                call("fx", vec![E::Bool(true)]),
                call("fx", vec![E::Bool(false)]),
                bin(Op::Eq, var("s"), st("ab")),
                bin(Op::Lt, st("a"), var("s")),
            ]),
        ]);
        let bool2 = Gen::or(vec![
            b1.clone(),
            bin_gen(&[Op::And, Op::Or], &bc1, &bc1),
            bc1.map(|e| E::Not(Box::new(e))),
            bin_gen(CMP, &nc1, &nc1),
            bin_gen(CMP, &sc1, &sc1),
            bin_gen(&[Op::Eq], &bc1, &bc1),
        ]);
        Exprs { num2, str2, bool2, arr1, bool1: Gen::or(vec![b0, b1]) }
    }
}

/// every depth<=1 boolean/null expression as an `if` / `jasi` condition and operand of not
fn cond_programs(ex: &Exprs) -> Gen<Vec<S>> {
    let forms: Gen<u8> = g(vec![0, 1, 2]);
    pair(&ex.bool1, &forms, |c, form| {
        let mut p = preamble();
        match form {
            0 => p.push(S::If(c, vec![shout(st("then"))], Some(vec![shout(st("else"))]))),
            1 => {
                p.push(make("i", num("0")));
                p.push(S::Loop(
                    bin(Op::And, bin(Op::Lt, var("i"), num("2")), c),
                    vec![shout(var("i")), set("i", bin(Op::Add, var("i"), num("1")))],
                ));
            }
            _ => p.push(S::If(c, vec![shout(st("only-then"))], None)),
        }
        p.push(shout(st("done")));
        p
    })
}

// ---------------------------------------------------------------------------------------
// L2 statement sequences
// ---------------------------------------------------------------------------------------

fn stmt_forms() -> Vec<S> {
    let x = || var("x");
    let u = || var("u");
    vec![
        make("x", num("5")),
        make("x", bin(Op::Add, x(), num("1"))),
        set("x", bin(Op::Add, x(), num("1"))),
        set("x", bin(Op::Mul, x(), num("2.5"))),
        set("x", bin(Op::Div, num("1"), bin(Op::Sub, x(), num("2")))),
        set("x", meth(var("v"), "len", vec![])),
        make("u", st("k")),
        set("u", bin(Op::Add, u(), st("b"))),
        set("u", bin(Op::Add, u(), x())),
        set("u", E::Str(vec![SP::Var("u".into()), SP::Lit("/".into()), SP::Var("x".into())])),
        set("u", meth(u(), "to_uppercase", vec![])),
        set("u", meth(var("v"), "join", vec![st(",")])),
        make("v", E::Arr(vec![x(), u()])),
        S::Expr(meth(var("v"), "push", vec![x()])),
        S::Expr(meth(var("v"), "push", vec![u()])),
        S::Expr(meth(var("v"), "push", vec![var("v")])),
        S::Expr(meth(var("v"), "pop", vec![])),
        S::Expr(meth(var("v"), "reverse", vec![])),
        S::SetIdx(idx(var("v"), num("0")), x()),
        S::SetIdx(idx(var("v"), num("1")), u()),
        shout(x()),
        shout(u()),
        shout(var("v")),
        shout(idx(var("v"), num("0"))),
        shout(E::Str(vec![SP::Var("x".into()), SP::Lit(":".into()), SP::Var("u".into()), SP::Lit(":".into()), SP::Var("v".into())])),
        S::Expr(call("fx", vec![x()])),
        S::Block(vec![make("x", num("100")), shout(x())]),
        S::Block(vec![set("x", num("7")), make("u", st("inner")), set("u", bin(Op::Add, u(), st("!")))]),
        S::If(bin(Op::Gt, x(), num("5")), vec![set("x", num("0"))], Some(vec![set("u", st("le"))])),
        S::Loop(bin(Op::Lt, x(), num("8")), vec![set("x", bin(Op::Add, x(), num("2"))), S::Expr(meth(var("v"), "push", vec![x()]))]),
    ]
}

fn stmt_sequences(max_len: u32) -> Gen<Vec<S>> {
    let forms = g(stmt_forms());
    seq_range(&forms, 1, max_len).map(|seq| {
        let mut p = vec![
            make("x", num("1")),
            make("u", st("a")),
            make("v", E::Arr(vec![num("0")])),
            func("fx", &["q"], vec![shout(st("fx")), S::Ret(Some(var("q")))]),
        ];
        p.extend(seq);
        p.push(shout(var("x")));
        p.push(shout(var("u")));
        p.push(shout(var("v")));
        p
    })
}

// ---------------------------------------------------------------------------------------
// L3 control flow
// ---------------------------------------------------------------------------------------

/// Statement trees: if / if-else / counted loop / block to nesting depth 2 (3 thorough) with
/// `comot`, `next`, `return` at every position. The whole thing runs inside a function that
/// sits inside an outer counted loop, so that every jump is legal everywhere and its target
/// is observable.
fn control_flow(thorough: bool) -> Gen<Vec<S>> {
    let base = g(vec![
        shout(st("p")),
        set("x", bin(Op::Add, var("x"), num("1"))),
        S::Break,
        S::Next,
        S::Ret(Some(st("r"))),
        shout(var("x")),
    ]);
    let conds = g(vec![bin(Op::Lt, var("x"), num("2")), E::Bool(true), bin(Op::Eq, bin(Op::Mod, var("x"), num("2")), num("0"))]);
    // depth-0 bodies: 1..2 base statements
    let body0 = seq_range(&base, 1, 2);
    let single0 = base.map(|s| vec![s]);
    let counted = |k: &'static str, tag: &'static str, body: Vec<S>| -> Vec<S> {
        // the counter is bumped first so that `next` cannot loop forever
        let mut b = vec![set(tag, bin(Op::Add, var(tag), num("1")))];
        b.extend(body);
        vec![make(tag, num("0")), S::Loop(bin(Op::Lt, var(tag), num(k)), b)]
    };
    let item1 = Gen::or(vec![
        base.map(|s| vec![s]),
        pair(&conds, &body0, |c, b| vec![S::If(c, b, None)]),
        triple(&conds, &body0, &single0, |c, t, e| vec![S::If(c, t, Some(e))]),
        pair(&g(vec!["0", "1", "3"]), &body0, move |k, b| counted(k, "i", b)),
        body0.map(|b| vec![S::Block(b)]),
    ]);
    // depth-1 bodies: one depth-1 item, optionally followed by one base statement
    let body1 = Gen::or(vec![
        item1.clone(),
        pair(&item1, &base, |mut a, b| {
            a.push(b);
            a
        }),
    ]);
    let item2 = Gen::or(vec![
        pair(&conds, &body1, |c, b| vec![S::If(c, b, None)]),
        triple(&conds, &item1, &single0, |c, t, e| vec![S::If(c, t, Some(e))]),
        triple(&conds, &single0, &item1, |c, t, e| vec![S::If(c, t, Some(e))]),
        pair(&g(vec!["1", "3"]), &body1, move |k, b| counted(k, "j", b)),
        item1.map(|b| vec![S::Block(b)]),
    ]);
    let top = if thorough {
        // a depth-2 item followed by a depth-1 item
        Gen::or(vec![
            item2.clone(),
            pair(&item2, &base, |mut a, b| {
                a.push(b);
                a
            }),
            pair(&item1, &item1, |mut a, b| {
                a.extend(b);
                a
            }),
        ])
    } else {
        Gen::or(vec![body1.clone(), item2.clone()])
    };
    top.map(|body| {
        // do f() start make x get 0  make o get 0  jasi (o small pass 2) start o get o add 1 <body> shout("after") end  return "end" end
        let mut inner = vec![set("o", bin(Op::Add, var("o"), num("1")))];
        inner.extend(body);
        inner.push(shout(st("after")));
        vec![
            func(
                "f",
                &[],
                vec![
                    make("x", num("0")),
                    make("o", num("0")),
                    S::Loop(bin(Op::Lt, var("o"), num("2")), inner),
                    shout(var("x")),
                    S::Ret(Some(st("end"))),
                ],
            ),
            shout(call("f", vec![])),
        ]
    })
}

// ---------------------------------------------------------------------------------------
// L4 functions
// ---------------------------------------------------------------------------------------

fn functions(thorough: bool) -> Gen<Vec<S>> {
    let ret_vals = g(vec![
        num("1"),
        st("s"),
        E::Bool(true),
        E::Null,
        E::Arr(vec![num("1"), st("a")]),
        var("p"),
        bin(Op::Add, var("p"), var("p")),
        E::Str(vec![SP::Lit("<".into()), SP::Var("p".into()), SP::Lit(">".into())]),
        var("g0"),
    ]);
    let args = g(vec![num("2"), st("ab"), E::Arr(vec![num("3")]), var("g0")]);
    // where the definition sits relative to the call
    let placement: Gen<u8> = g(vec![0, 1, 2, 3]);
    // return nesting position
    let ret_pos: Gen<u8> = g(vec![0, 1, 2, 3, 4, 5]);
    let basic = Gen::or(vec![triple(&pair(&ret_vals, &args, |r, a| (r, a)), &placement, &ret_pos, |(r, a), pl, rp| {
        let ret = S::Ret(Some(r));
        let body = match rp {
            0 => vec![ret],
            1 => vec![shout(st("in")), ret, shout(st("dead"))],
            2 => vec![S::If(E::Bool(true), vec![ret], None), shout(st("after-if"))],
            3 => vec![S::If(E::Bool(false), vec![shout(st("no"))], Some(vec![ret])), shout(st("after-else"))],
            4 => vec![make("k", num("0")), S::Loop(E::Bool(true), vec![set("k", bin(Op::Add, var("k"), num("1"))), S::If(bin(Op::Gt, var("k"), num("2")), vec![ret], None)]), shout(st("after-loop"))],
            _ => vec![S::Block(vec![S::Block(vec![ret])]), shout(st("after-block"))],
        };
        let def = func("f", &["p"], body);
        let callsite = shout(call("f", vec![a]));
        let mut p = vec![make("g0", st("G"))];
        match pl {
            0 => {
                p.push(def);
                p.push(callsite);
            }
            1 => {
                p.push(callsite);
                p.push(def);
            }
            2 => {
                p.push(def);
                p.push(S::Block(vec![callsite]));
            }
            _ => {
                p.push(def);
                p.push(func("h", &[], vec![callsite, S::Ret(Some(call("f", vec![num("9")])))]));
                p.push(shout(call("h", vec![])));
            }
        }
        p.push(shout(var("g0")));
        p
    })]);
    // recursion templates
    let depths = g(if thorough { vec!["0", "1", "2", "5", "20", "50"] } else { vec!["0", "1", "3", "20"] });
    let rec = Gen::or(vec![
        // countdown with accumulation on the way back
        depths.map(|d| {
            vec![
                func("cd", &["k"], vec![
                    S::If(bin(Op::Lt, var("k"), num("1")), vec![S::Ret(Some(st("|")))], None),
                    S::Ret(Some(bin(Op::Add, bin(Op::Add, var("k"), call("cd", vec![bin(Op::Sub, var("k"), num("1"))])), var("k")))),
                ]),
                shout(call("cd", vec![num(d)])),
            ]
        }),
        // mutual recursion across a forward reference
        depths.map(|d| {
            vec![
                shout(call("ev", vec![num(d)])),
                func("ev", &["k"], vec![S::If(bin(Op::Eq, var("k"), num("0")), vec![S::Ret(Some(E::Bool(true)))], None), S::Ret(Some(call("od", vec![bin(Op::Sub, var("k"), num("1"))])))]),
                func("od", &["k"], vec![S::If(bin(Op::Eq, var("k"), num("0")), vec![S::Ret(Some(E::Bool(false)))], None), S::Ret(Some(call("ev", vec![bin(Op::Sub, var("k"), num("1"))])))]),
            ]
        }),
        // fibonacci (two recursive calls in one expression: left-to-right)
        g(vec!["0", "1", "5", "10"]).map(|d| {
            vec![
                func("fib", &["k"], vec![
                    shout(var("k")),
                    S::If(bin(Op::Lt, var("k"), num("2")), vec![S::Ret(Some(var("k")))], None),
                    S::Ret(Some(bin(Op::Add, call("fib", vec![bin(Op::Sub, var("k"), num("1"))]), call("fib", vec![bin(Op::Sub, var("k"), num("2"))])))),
                ]),
                shout(call("fib", vec![num(if d == "10" { "7" } else { d })])),
            ]
        }),
        // infinite recursion: must end in the stack-overflow runtime error
        g(vec![0u8, 1, 2]).map(|k| match k {
            0 => vec![shout(st("before")), func("inf", &[], vec![S::Ret(Some(call("inf", vec![])))]), shout(call("inf", vec![]))],
            1 => vec![func("inf", &["q"], vec![S::Ret(Some(bin(Op::Add, num("1"), call("inf", vec![bin(Op::Add, var("q"), num("1"))]))))]), shout(call("inf", vec![num("0")]))],
            _ => vec![func("pa", &[], vec![S::Ret(Some(call("pb", vec![])))]), func("pb", &[], vec![S::Ret(Some(call("pa", vec![])))]), shout(call("pa", vec![]))],
        }),
        // captured variables: read, write, both; nested definition; arguments evaluated left to right
        g(vec![0u8, 1, 2, 3, 4, 5]).map(|k| {
            let mut p = vec![make("cnt", num("0")), make("log", st(""))];
            p.push(func("bump", &["by"], vec![
                set("cnt", bin(Op::Add, var("cnt"), var("by"))),
                set("log", bin(Op::Add, var("log"), var("by"))),
                S::Ret(Some(var("cnt"))),
            ]));
            match k {
                0 => p.push(shout(bin(Op::Add, call("bump", vec![num("1")]), call("bump", vec![num("10")])))),
                1 => p.push(shout(E::Arr(vec![call("bump", vec![num("1")]), var("cnt"), call("bump", vec![num("2")])]))),
                2 => {
                    p.push(func("two", &["a", "b"], vec![S::Ret(Some(bin(Op::Sub, var("a"), var("b"))))]));
                    p.push(shout(call("two", vec![call("bump", vec![num("5")]), call("bump", vec![num("1")])])));
                }
                3 => {
                    p.push(func("outer", &[], vec![
                        make("loc", num("100")),
                        func("inner", &[], vec![set("loc", bin(Op::Add, var("loc"), num("1"))), S::Ret(Some(bin(Op::Add, var("loc"), call("bump", vec![num("1")]))))]),
                        S::Ret(Some(bin(Op::Add, call("inner", vec![]), call("inner", vec![])))),
                    ]));
                    p.push(shout(call("outer", vec![])));
                }
                4 => {
                    // no return executed → null; bare return → null
                    p.push(func("nr", &[], vec![set("cnt", num("9"))]));
                    p.push(func("br", &["q"], vec![S::If(var("q"), vec![S::Ret(None)], None), S::Ret(Some(num("1")))]));
                    p.push(shout(call("nr", vec![])));
                    p.push(shout(call("br", vec![E::Bool(true)])));
                    p.push(shout(call("br", vec![E::Bool(false)])));
                    p.push(shout(call("typeof", vec![call("nr", vec![])])));
                }
                _ => {
                    // local shadows parameter; parameter shadows global
                    p.push(func("sh", &["cnt"], vec![shout(var("cnt")), make("cnt", st("local")), shout(var("cnt")), S::Ret(Some(var("cnt")))]));
                    p.push(shout(call("sh", vec![st("param")])));
                }
            }
            p.push(shout(var("cnt")));
            p.push(shout(var("log")));
            p
        }),
    ]);
    Gen::or(vec![basic, rec])
}

/// hosts for the layout property (C10)
pub fn layout_hosts(thorough: bool) -> Gen<Vec<S>> {
    let cf = control_flow(false);
    let stride = if thorough { 97 } else { 211 };
    let n = cf.count / stride;
    Gen::or(vec![stmt_sequences(2), functions(false), Gen::new(n, move |i| cf.nth(i * stride))])
}

/// the layer generators (for C14's stride)
pub fn program_gens(thorough: bool) -> Vec<Gen<Vec<S>>> {
    let ex = Exprs::new(thorough);
    vec![
        with_preamble(&ex.num2),
        with_preamble(&ex.str2),
        with_preamble(&ex.bool2),
        with_preamble(&ex.arr1),
        cond_programs(&ex),
        stmt_sequences(3),
        control_flow(false),
        functions(thorough),
    ]
}
