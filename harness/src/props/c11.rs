//! C11 — bump arena contract. E2: breadth-first search over operation sequences, every
//! transition executed on a real `Arena` in lock-step with a shadow that only knows the
//! contract (live blocks with byte patterns, marks).

use std::alloc::{Allocator, Layout};
use std::collections::{HashSet, VecDeque};
use std::panic::{AssertUnwindSafe, catch_unwind};
use std::ptr::NonNull;

use naijascript::arena::{Arena, ArenaString, ScratchArena, init, scratch_arena};
use serde_json::{Value as J, json};

use crate::drive::Ctx;
use crate::engine::{Outcome, Profile, PropMeta, Space, Tier, Violation};

pub fn meta(_tier: Tier) -> PropMeta {
    PropMeta {
        id: "C11",
        level: "model_checking",
        rule: "breadth-first search over sequences of allocate / allocate_zeroed / grow / grow_zeroed / \
               shrink / mark / reset-to-mark / decommit / Vec growth / ArenaString growth / \
               alloc_uninit_slice on real arenas of 1 and 2 commit chunks, and of borrow / conflict-borrow \
               / alloc / release on the two global scratch arenas; states are deduplicated on (capacity, \
               offset, commit, live (start,len) list, marks, pending reset mark); every transition calls \
               the real function, writes a fresh byte pattern into the returned block and re-reads every \
               live block. A case = one (configuration, first operation) subtree; non-trivial = the \
               subtree contained a commit-boundary crossing or a failing request or a reset/grow."
            .into(),
        assumptions: vec![
            "depth bound (quick 4 ops, thorough 5-6 ops) and the stated size/alignment alphabet".into(),
            "only API-legal histories: shrink of the tail block only under debug assertions, scratch borrows used newest-only and released LIFO, no reset that cuts a block grown across the mark".into(),
            "the model does not fix the chunk size, the poisoning bytes, or whether grow is in place".into(),
            "a request that fits is not required to succeed (only: what is returned is sound, what fails leaves the arena unchanged)".into(),
        ],
        explanation: String::new(),
    }
}

pub fn spaces(tier: Tier) -> Vec<Box<dyn Space>> {
    let mut v: Vec<Box<dyn Space>> = Vec::new();
    for profile in [Profile::Poison, Profile::Fast] {
        let depth = if tier == Tier::Thorough { 5 } else { 4 };
        v.push(Box::new(ArenaBfs { profile, chunks: 2, depth }));
        v.push(Box::new(ArenaBfs { profile, chunks: 1, depth }));
        v.push(Box::new(ScratchBfs { profile, depth: if tier == Tier::Thorough { 8 } else { 6 } }));
    }
    v
}

const CHUNK: usize = 64 * 1024;

#[derive(Clone, Debug, PartialEq, Eq, Hash)]
enum Op {
    Alloc { size: usize, align: usize, zeroed: bool },
    Grow { last: bool, delta: usize, zeroed: bool },
    ShrinkTail,
    ShrinkNonTail,
    Mark,
    Reset(usize),
    Decommit,
    VecPush(usize),
    Str(u8),
    SliceU64(usize),
    SliceU8(usize),
    /// grow by 56 bytes to a larger alignment (64) than the block was allocated with
    GrowAlign { last: bool },
}

fn alphabet(profile: Profile) -> Vec<Op> {
    let mut v = Vec::new();
    let huge = isize::MAX as usize - 4095;
    for &(size, align) in &[
        (0usize, 1usize),
        (1, 1),
        (7, 1),
        (8, 8),
        (24, 8),
        (1, 64),
        (4096, 4096),
        (65_535, 1),
        (65_536, 8),
        (65_537, 1),
        (131_072, 1),
        (131_073, 1),
        (huge, 1),
        (8, 65_536),
    ] {
        v.push(Op::Alloc { size, align, zeroed: false });
    }
    for &(size, align) in &[(1usize, 1usize), (4096, 64), (65_537, 8)] {
        v.push(Op::Alloc { size, align, zeroed: true });
    }
    for last in [true, false] {
        for &delta in &[1usize, 4096, 65_536] {
            v.push(Op::Grow { last, delta, zeroed: false });
        }
        v.push(Op::Grow { last, delta: 100, zeroed: true });
    }
    v.push(Op::ShrinkTail);
    if profile == Profile::Fast {
        // under debug assertions a non-tail shrink is a documented debug_assert
        v.push(Op::ShrinkNonTail);
    }
    v.push(Op::Mark);
    v.push(Op::Reset(0));
    v.push(Op::Reset(1));
    v.push(Op::Decommit);
    v.push(Op::VecPush(5));
    v.push(Op::VecPush(9000));
    v.push(Op::Str(0));
    v.push(Op::Str(1));
    v.push(Op::SliceU64(3));
    v.push(Op::SliceU64(8192));
    v.push(Op::SliceU64(1 << 61));
    v.push(Op::SliceU8(100));
    v.push(Op::SliceU8(usize::MAX - 10));
    if profile == Profile::Fast {
        // under debug assertions a grow to a larger alignment is a debug_assert
        v.push(Op::GrowAlign { last: true });
        v.push(Op::GrowAlign { last: false });
    }
    v
}

#[derive(Clone, Debug)]
struct Block {
    start: usize,
    len: usize,
    align: usize,
    pat: u8,
}

struct Shadow {
    live: Vec<Block>,
    marks: Vec<usize>,
    pending_reset: Option<usize>,
    next_pat: u8,
    // non-triviality markers
    crossed_commit: bool,
    failed_request: bool,
    did_reset_or_grow: bool,
}

impl Shadow {
    fn new() -> Self {
        Shadow {
            live: vec![],
            marks: vec![],
            pending_reset: None,
            next_pat: 1,
            crossed_commit: false,
            failed_request: false,
            did_reset_or_grow: false,
        }
    }
    fn pat(&mut self) -> u8 {
        let p = self.next_pat;
        // never 0x00 (zeroed), 0xCD / 0xDD (poison bytes)
        self.next_pat = match self.next_pat {
            0xCC => 0xCE,
            0xDC => 0xDE,
            0xFE => 1,
            x => x + 1,
        };
        p
    }
}

fn pattern_byte(pat: u8, k: usize) -> u8 {
    pat ^ ((k as u8) & 0x0F)
}

fn fill(b: &Block) {
    let s = unsafe { std::slice::from_raw_parts_mut(b.start as *mut u8, b.len) };
    for (k, x) in s.iter_mut().enumerate() {
        *x = pattern_byte(b.pat, k);
    }
}

fn intact_prefix(b: &Block, n: usize) -> bool {
    let s = unsafe { std::slice::from_raw_parts(b.start as *const u8, n.min(b.len)) };
    s.iter().enumerate().all(|(k, &x)| x == pattern_byte(b.pat, k))
}

type Bad = (String, J);

fn check_new_block(
    arena: &Arena,
    sh: &Shadow,
    ptr: usize,
    len: usize,
    want_len: usize,
    align: usize,
    ignore: Option<usize>,
) -> Result<(), Bad> {
    let (base, cap, commit, offset) = arena.verif_state();
    if ptr < base || ptr + len > base + cap {
        return Err(("block-out-of-reservation".into(), json!({"off": ptr as i64 - base as i64, "len": len, "capacity": cap})));
    }
    if len < want_len {
        return Err(("block-too-small".into(), json!({"len": len, "want": want_len})));
    }
    if !ptr.is_multiple_of(align) {
        return Err(("block-misaligned".into(), json!({"addr_mod_align": ptr % align, "align": align})));
    }
    if ptr + len > base + commit || ptr + len > base + offset {
        return Err(("block-beyond-commit-or-offset".into(), json!({"end_off": ptr + len - base, "commit": commit, "offset": offset})));
    }
    for (i, b) in sh.live.iter().enumerate() {
        if Some(i) == ignore {
            continue;
        }
        if ptr < b.start + b.len && b.start < ptr + len {
            return Err(("blocks-overlap".into(), json!({"new_off": ptr - base, "new_len": len, "old_off": b.start - base, "old_len": b.len})));
        }
    }
    Ok(())
}

fn state_ok(arena: &Arena, sh: &Shadow) -> Result<(), Bad> {
    let (_, cap, commit, offset) = arena.verif_state();
    if !(offset <= commit && commit <= cap) {
        return Err(("offset-commit-capacity-order".into(), json!({"offset": offset, "commit": commit, "capacity": cap})));
    }
    for b in &sh.live {
        if !intact_prefix(b, b.len) {
            return Err(("live-block-clobbered".into(), json!({"len": b.len, "align": b.align})));
        }
    }
    Ok(())
}

/// Is `op` enabled in this shadow state (API-legal and meaningful)?
fn enabled(arena: &Arena, sh: &Shadow, op: &Op) -> bool {
    let (base, cap, _, offset) = arena.verif_state();
    let tail = |b: &Block| b.start + b.len == base + offset;
    match op {
        Op::Alloc { .. } | Op::Mark | Op::Decommit | Op::SliceU64(_) | Op::SliceU8(_) => {
            !matches!(op, Op::Mark) || sh.marks.len() < 2
        }
        Op::Grow { last, .. } | Op::GrowAlign { last } => {
            if *last { !sh.live.is_empty() } else { sh.live.len() >= 2 }
        }
        Op::ShrinkTail => sh.live.last().is_some_and(|b| tail(b) && b.len >= 2),
        Op::ShrinkNonTail => sh.live.len() >= 2 && !tail(&sh.live[0]) && sh.live[0].len >= 2,
        // reset() deallocates *down to* an offset: only marks at or below the current one
        Op::Reset(j) => sh.marks.get(*j).is_some_and(|m| *m <= offset),
        // growth through Vec/String aborts the process on failure (handle_alloc_error): only
        // run them when there is room for the doubling strategy
        Op::VecPush(n) => cap - offset > n * 8 * 4 + 64,
        Op::Str(k) => cap - offset > if *k == 0 { 1024 } else { 4 * 70_000 },
    }
}

fn apply(arena: &Arena, sh: &mut Shadow, op: &Op) -> Result<(), Bad> {
    let (base, _cap, commit0, offset0) = arena.verif_state();
    match op {
        Op::Alloc { size, align, zeroed } => {
            let layout = Layout::from_size_align(*size, *align).unwrap();
            let r = if *zeroed { arena.allocate_zeroed(layout) } else { arena.allocate(layout) };
            match r {
                Ok(p) => {
                    let (ptr, len) = (p.cast::<u8>().as_ptr() as usize, p.len());
                    check_new_block(arena, sh, ptr, len, *size, *align, None)?;
                    if let Some(m) = sh.pending_reset.take() {
                        let want = (base + m).next_multiple_of(*align);
                        if ptr != want {
                            return Err(("space-above-mark-not-reused".into(), json!({"mark": m, "got_off": ptr - base, "want_off": want - base})));
                        }
                    }
                    let b = Block { start: ptr, len, align: *align, pat: sh.pat() };
                    if *zeroed {
                        let s = unsafe { std::slice::from_raw_parts(ptr as *const u8, len) };
                        if s.iter().any(|&x| x != 0) {
                            return Err(("zeroed-block-not-zero".into(), json!({"size": size})));
                        }
                    }
                    fill(&b);
                    if len > 0 {
                        sh.live.push(b);
                    }
                    if arena.verif_state().2 > commit0 {
                        sh.crossed_commit = true;
                    }
                }
                Err(_) => {
                    sh.failed_request = true;
                    let (_, cap, _, offset1) = arena.verif_state();
                    if offset1 != offset0 {
                        return Err(("failed-request-moved-offset".into(), json!({"before": offset0, "after": offset1})));
                    }
                    // a request that obviously fits must not be refused for lack of space;
                    // (not demanded: see assumptions) — only count it
                    let _ = cap;
                }
            }
        }
        Op::Grow { last, delta, zeroed } => {
            let idx = if *last { sh.live.len() - 1 } else { 0 };
            let b = sh.live[idx].clone();
            let old = Layout::from_size_align(b.len, b.align).unwrap();
            let new = Layout::from_size_align(b.len + delta, b.align).unwrap();
            let p = NonNull::new(b.start as *mut u8).unwrap();
            let r = unsafe { if *zeroed { arena.grow_zeroed(p, old, new) } else { arena.grow(p, old, new) } };
            sh.did_reset_or_grow = true;
            match r {
                Ok(np) => {
                    let (ptr, len) = (np.cast::<u8>().as_ptr() as usize, np.len());
                    check_new_block(arena, sh, ptr, len, b.len + delta, b.align, Some(idx))?;
                    // a moved block must not overlap its old place either while we compare
                    let moved = Block { start: ptr, len, align: b.align, pat: b.pat };
                    if !intact_prefix(&moved, b.len) {
                        return Err(("grow-lost-contents".into(), json!({"old_len": b.len, "delta": delta, "was_last": last, "moved": ptr != b.start})));
                    }
                    if *zeroed {
                        let s = unsafe { std::slice::from_raw_parts((ptr + b.len) as *const u8, len - b.len) };
                        if s.iter().any(|&x| x != 0) {
                            return Err(("grow-zeroed-tail-not-zero".into(), json!({"old_len": b.len, "delta": delta})));
                        }
                    }
                    if ptr != b.start && ptr < b.start + b.len && b.start < ptr + len {
                        return Err(("grow-moved-onto-itself".into(), json!({})));
                    }
                    sh.pending_reset = None;
                    let nb = Block { start: ptr, len, align: b.align, pat: sh.pat() };
                    fill(&nb);
                    sh.live[idx] = nb;
                    if arena.verif_state().2 > commit0 {
                        sh.crossed_commit = true;
                    }
                }
                Err(_) => {
                    sh.failed_request = true;
                    if arena.verif_state().3 != offset0 {
                        return Err(("failed-request-moved-offset".into(), json!({"before": offset0, "after": arena.verif_state().3})));
                    }
                }
            }
        }
        Op::GrowAlign { last } => {
            let idx = if *last { sh.live.len() - 1 } else { 0 };
            let b = sh.live[idx].clone();
            let new_align = b.align.max(64);
            let old = Layout::from_size_align(b.len, b.align).unwrap();
            let Ok(new) = Layout::from_size_align(b.len + 56, new_align) else { return state_ok(arena, sh) };
            let p = NonNull::new(b.start as *mut u8).unwrap();
            let r = unsafe { arena.grow(p, old, new) };
            sh.did_reset_or_grow = true;
            match r {
                Ok(np) => {
                    let (ptr, len) = (np.cast::<u8>().as_ptr() as usize, np.len());
                    check_new_block(arena, sh, ptr, len, b.len + 56, new_align, Some(idx))?;
                    let moved = Block { start: ptr, len, align: new_align, pat: b.pat };
                    if !intact_prefix(&moved, b.len) {
                        return Err(("grow-lost-contents".into(), json!({"old_len": b.len, "to_align": new_align, "was_last": last, "moved": ptr != b.start})));
                    }
                    sh.pending_reset = None;
                    let nb = Block { start: ptr, len, align: new_align, pat: sh.pat() };
                    fill(&nb);
                    sh.live[idx] = nb;
                }
                Err(_) => {
                    sh.failed_request = true;
                    if arena.verif_state().3 != offset0 {
                        return Err(("failed-request-moved-offset".into(), json!({"before": offset0, "after": arena.verif_state().3})));
                    }
                }
            }
        }
        Op::ShrinkTail | Op::ShrinkNonTail => {
            let idx = if matches!(op, Op::ShrinkTail) { sh.live.len() - 1 } else { 0 };
            let b = sh.live[idx].clone();
            let old = Layout::from_size_align(b.len, b.align).unwrap();
            let new_len = b.len / 2;
            let new = Layout::from_size_align(new_len, b.align).unwrap();
            let r = unsafe { arena.shrink(NonNull::new(b.start as *mut u8).unwrap(), old, new) };
            match r {
                Ok(np) => {
                    let (ptr, len) = (np.cast::<u8>().as_ptr() as usize, np.len());
                    if ptr != b.start || len < new_len || len > b.len {
                        return Err(("shrink-returned-other-block".into(), json!({"len": len, "want_at_least": new_len})));
                    }
                    let kept = Block { start: ptr, len, align: b.align, pat: b.pat };
                    if !intact_prefix(&kept, len) {
                        return Err(("shrink-lost-contents".into(), json!({})));
                    }
                    let (_, _, _, off) = arena.verif_state();
                    if ptr + len > base + off {
                        return Err(("block-beyond-commit-or-offset".into(), json!({"after": "shrink"})));
                    }
                    sh.live[idx] = Block { start: ptr, len, align: b.align, pat: b.pat };
                    if len == 0 {
                        sh.live.remove(idx);
                    }
                    // A tail shrink lowers the offset: marks taken above it no longer denote
                    // "deallocate down to here" (reset() is only defined downwards), and the
                    // next block is expected at the new offset, not at an earlier reset's mark.
                    sh.marks.retain(|m| *m <= off);
                    if sh.pending_reset.is_some_and(|m| off < m) {
                        sh.pending_reset = None;
                    }
                }
                Err(_) => return Err(("shrink-failed".into(), json!({}))),
            }
        }
        Op::Mark => sh.marks.push(offset0),
        Op::Reset(j) => {
            let m = sh.marks[*j];
            sh.marks.truncate(*j + 1);
            unsafe { arena.reset(m) };
            sh.did_reset_or_grow = true;
            // blocks that reach above the mark are gone
            sh.live.retain(|b| b.start + b.len <= base + m);
            let (_, _, _, off) = arena.verif_state();
            if off != m {
                return Err(("reset-offset-wrong".into(), json!({"mark": m, "offset": off})));
            }
            sh.pending_reset = Some(m);
        }
        Op::Decommit => {
            arena.decommit();
            let (_, _, commit, offset) = arena.verif_state();
            if commit < offset {
                return Err(("decommit-below-offset".into(), json!({"commit": commit, "offset": offset})));
            }
        }
        Op::VecPush(n) => {
            sh.pending_reset = None;
            let mut v: Vec<u64, &Arena> = Vec::new_in(arena);
            let mut ok = true;
            for i in 0..*n {
                if v.len() == v.capacity() && v.try_reserve(1).is_err() {
                    ok = false;
                    sh.failed_request = true;
                    break;
                }
                v.push(0x0101_0101_0101_0101u64.wrapping_mul(i as u64 + 1));
            }
            for (i, &x) in v.iter().enumerate() {
                if x != 0x0101_0101_0101_0101u64.wrapping_mul(i as u64 + 1) {
                    return Err(("vec-growth-lost-contents".into(), json!({"n": n, "index": i})));
                }
            }
            let (ptr, len) = (v.as_ptr() as usize, v.capacity() * 8);
            std::mem::forget(v);
            if len > 0 {
                check_new_block(arena, sh, ptr, len, if ok { n * 8 } else { 0 }, 8, None)?;
                let b = Block { start: ptr, len, align: 8, pat: sh.pat() };
                fill(&b);
                sh.live.push(b);
            }
            if arena.verif_state().2 > commit0 {
                sh.crossed_commit = true;
            }
        }
        Op::Str(kind) => {
            sh.pending_reset = None;
            let (s, want): (ArenaString<'_>, String) = if *kind == 0 {
                let mut s = ArenaString::from_str(arena, "0123456789abcdefghij");
                let mut w = String::from("0123456789abcdefghij");
                for _ in 0..3 {
                    s.push_str("ABCDEFGHIJKLMNOPQRST");
                    w.push_str("ABCDEFGHIJKLMNOPQRST");
                }
                s.replace_range(5..10, "XYZ");
                w.replace_range(5..10, "XYZ");
                s.replace_range(0..0, "é😆");
                w.replace_range(0..0, "é😆");
                (s, w)
            } else {
                let mut s = ArenaString::with_capacity_in(8, arena);
                let mut w = String::new();
                s.push_str("abc");
                w.push_str("abc");
                s.reserve_exact(70_000);
                s.push_repeat('é', 100);
                w.push_str(&"é".repeat(100));
                s.push_repeat('x', 69_000);
                w.push_str(&"x".repeat(69_000));
                (s, w)
            };
            if s.as_bytes() != want.as_bytes() {
                return Err(("string-growth-lost-contents".into(), json!({"kind": kind})));
            }
            let (ptr, len) = (s.as_bytes().as_ptr() as usize, s.capacity());
            std::mem::forget(s);
            check_new_block(arena, sh, ptr, len, want.len(), 1, None)?;
            let b = Block { start: ptr, len, align: 1, pat: sh.pat() };
            fill(&b);
            sh.live.push(b);
            if arena.verif_state().2 > commit0 {
                sh.crossed_commit = true;
            }
        }
        Op::SliceU64(_) | Op::SliceU8(_) => {
            let (n, elem) = match op {
                Op::SliceU64(n) => (n, 8usize),
                Op::SliceU8(n) => (n, 1usize),
                _ => unreachable!(),
            };
            let r = catch_unwind(AssertUnwindSafe(|| {
                if elem == 8 {
                    let s = arena.alloc_uninit_slice::<u64>(*n);
                    (s.as_ptr() as usize, s.len())
                } else {
                    let s = arena.alloc_uninit_slice::<u8>(*n);
                    (s.as_ptr() as usize, s.len())
                }
            }));
            match r {
                Ok((ptr, count)) => {
                    let bytes = (count as u128) * elem as u128;
                    let (_, cap, _, _) = arena.verif_state();
                    if count != *n || bytes > cap as u128 {
                        // the slice claims more memory than the arena owns
                        return Err(("slice-out-of-bounds-memory".into(), json!({"count": format!("{count}"), "bytes": format!("{bytes}"), "capacity": cap})));
                    }
                    let len = bytes as usize;
                    check_new_block(arena, sh, ptr, len, len, elem, None)?;
                    if let Some(m) = sh.pending_reset.take() {
                        let want = (base + m).next_multiple_of(elem);
                        if ptr != want {
                            return Err(("space-above-mark-not-reused".into(), json!({"mark": m, "got_off": ptr - base})));
                        }
                    }
                    if len > 0 {
                        let b = Block { start: ptr, len, align: elem, pat: sh.pat() };
                        fill(&b);
                        sh.live.push(b);
                    }
                    if arena.verif_state().2 > commit0 {
                        sh.crossed_commit = true;
                    }
                }
                Err(_) => {
                    let _ = crate::drive::take_panic();
                    sh.failed_request = true;
                    if arena.verif_state().3 != offset0 {
                        return Err(("failed-request-moved-offset".into(), json!({"before": offset0, "after": arena.verif_state().3})));
                    }
                }
            }
        }
    }
    state_ok(arena, sh)
}

fn key(arena: &Arena, sh: &Shadow) -> Vec<usize> {
    let (base, cap, commit, offset) = arena.verif_state();
    let mut k = vec![cap, offset, commit, sh.pending_reset.map_or(usize::MAX, |m| m), sh.marks.len()];
    k.extend(&sh.marks);
    for b in &sh.live {
        k.push(b.start - base);
        k.push(b.len);
        k.push(b.align);
    }
    k
}

struct ArenaBfs {
    profile: Profile,
    chunks: usize,
    depth: usize,
}

impl ArenaBfs {
    /// Replays `path` on a fresh arena; returns the arena and shadow or the violation.
    fn replay(&self, path: &[Op]) -> Result<(Arena, Shadow), (usize, Bad)> {
        let arena = Arena::new(self.chunks * CHUNK).expect("reserve");
        let mut sh = Shadow::new();
        for (i, op) in path.iter().enumerate() {
            apply(&arena, &mut sh, op).map_err(|b| (i, b))?;
        }
        Ok((arena, sh))
    }
}

impl Space for ArenaBfs {
    fn id(&self) -> String {
        format!("arena-bfs-{}chunk-depth{}-{}", self.chunks, self.depth, self.profile.dir())
    }
    fn size(&self) -> u64 {
        alphabet(self.profile).len() as u64
    }
    fn profile(&self) -> Profile {
        self.profile
    }
    fn chunk(&self) -> u64 {
        1
    }
    fn case_timeout_ms(&self) -> u64 {
        3_600_000
    }
    fn describe(&self, i: u64) -> String {
        format!(
            "all op sequences of length <= {} starting with {:?} on an arena of {} chunk(s)",
            self.depth,
            alphabet(self.profile)[i as usize],
            self.chunks
        )
    }
    fn run(&self, _ctx: &mut Ctx, i: u64) -> Outcome {
        let ops = alphabet(self.profile);
        let first = ops[i as usize].clone();
        let mut seen: HashSet<Vec<usize>> = HashSet::new();
        let mut queue: VecDeque<Vec<Op>> = VecDeque::new();
        let mut transitions = 0u64;
        let mut paths = 0u64;
        let mut nontrivial = false;
        let mut sample = None;
        let mut max_depth = 0;
        // root: the first op applied to the empty arena (if enabled)
        {
            let (arena, sh) = self.replay(&[]).unwrap();
            if !enabled(&arena, &sh, &first) {
                return Outcome {
                    nontrivial: false,
                    class: "first-op-not-enabled-initially".into(),
                    counters: vec![("states", 1), ("transitions", 0)],
                    ..Default::default()
                };
            }
        }
        queue.push_back(vec![]);
        let mut root = true;
        while let Some(path) = queue.pop_front() {
            max_depth = max_depth.max(path.len());
            let candidates: Vec<Op> = if root { vec![first.clone()] } else { ops.clone() };
            root = false;
            for op in candidates {
                let Ok((arena, mut sh)) = self.replay(&path) else { continue };
                if !enabled(&arena, &sh, &op) {
                    continue;
                }
                transitions += 1;
                paths += 1;
                if let Err((class, detail)) = apply(&arena, &mut sh, &op) {
                    let mut full = path.clone();
                    full.push(op);
                    return Outcome {
                        nontrivial: true,
                        class: "violation".into(),
                        violations: vec![Violation::new(
                            class,
                            format!("arena {} chunk(s): {full:?}", self.chunks),
                            detail,
                        )],
                        counters: vec![("states", seen.len() as u64), ("transitions", transitions), ("traces_validated_against_impl", paths)],
                        sample: None,
                    };
                }
                nontrivial |= sh.crossed_commit || sh.failed_request || sh.did_reset_or_grow;
                let k = key(&arena, &sh);
                if seen.insert(k) && path.len() + 1 < self.depth {
                    let mut full = path.clone();
                    full.push(op);
                    if sample.is_none() && full.len() >= 3 && sh.did_reset_or_grow {
                        sample = Some(json!(format!("{full:?}")));
                    }
                    queue.push_back(full);
                }
            }
        }
        Outcome {
            nontrivial,
            class: format!("explored(max_depth={})", max_depth + 1),
            violations: vec![],
            counters: vec![("states", seen.len() as u64), ("transitions", transitions), ("traces_validated_against_impl", paths)],
            sample,
        }
    }
}

// ---------------------------------------------------------------------------------------
// the two process-global scratch arenas
// ---------------------------------------------------------------------------------------

#[derive(Clone, Debug, PartialEq, Eq, Hash)]
enum SOp {
    BorrowNone,
    BorrowConflictNewest,
    Alloc(usize),
    Release,
}

struct Borrow {
    arena: ScratchArena<'static>,
    base: usize,
    offset_at_borrow: usize,
    blocks: Vec<Block>,
}

struct ScratchBfs {
    profile: Profile,
    depth: usize,
}

const SCRATCH_CAP: usize = 2 * CHUNK;

fn scratch_apply(stack: &mut Vec<Borrow>, op: &SOp, pat: &mut u8) -> Result<(), Bad> {
    match op {
        SOp::BorrowNone | SOp::BorrowConflictNewest => {
            let (a, conflict_base) = if matches!(op, SOp::BorrowConflictNewest) {
                let newest = stack.last().unwrap();
                let cb = newest.base;
                (scratch_arena(Some(&*newest.arena)), Some(cb))
            } else {
                (scratch_arena(None), None)
            };
            let (base, _, _, offset) = a.verif_state();
            if let Some(cb) = conflict_base
                && cb == base
            {
                return Err(("conflict-borrow-returned-same-arena".into(), json!({})));
            }
            stack.push(Borrow { arena: a, base, offset_at_borrow: offset, blocks: vec![] });
        }
        SOp::Alloc(size) => {
            let top = stack.len() - 1;
            let layout = Layout::from_size_align(*size, 8).unwrap();
            let r = stack[top].arena.allocate(layout);
            if let Ok(p) = r {
                let (ptr, len) = (p.cast::<u8>().as_ptr() as usize, p.len());
                let (base, cap, commit, offset) = stack[top].arena.verif_state();
                if ptr < base || ptr + len > base + cap || ptr + len > base + commit || ptr + len > base + offset || !ptr.is_multiple_of(8) || len < *size {
                    return Err(("scratch-block-unsound".into(), json!({"size": size})));
                }
                for b in stack.iter().flat_map(|s| s.blocks.iter()) {
                    if ptr < b.start + b.len && b.start < ptr + len {
                        return Err(("scratch-blocks-overlap".into(), json!({"size": size, "old_len": b.len})));
                    }
                }
                let b = Block { start: ptr, len, align: 8, pat: *pat };
                *pat = if *pat >= 0xC0 { 1 } else { *pat + 1 };
                fill(&b);
                stack[top].blocks.push(b);
            }
        }
        SOp::Release => {
            let b = stack.pop().unwrap();
            let (base, want) = (b.base, b.offset_at_borrow);
            drop(b);
            // the arena it borrowed is back at the offset it had when borrowed: visible
            // through any other borrow of the same arena, or through a fresh probe borrow
            if let Some(other) = stack.iter().rev().find(|s| s.base == base) {
                let newest_same = stack.iter().rposition(|s| s.base == base).unwrap();
                // only the newest borrow of an arena may be asked (debug wrapper); reading
                // state is allowed through the unchecked accessor
                let _ = newest_same;
                let (_, _, commit, offset) = other.arena.verif_state();
                if offset != want || commit < offset {
                    return Err(("release-did-not-restore-offset".into(), json!({"offset": offset, "want": want})));
                }
            }
        }
    }
    for b in stack.iter().flat_map(|s| s.blocks.iter()) {
        if !intact_prefix(b, b.len) {
            return Err(("scratch-live-block-clobbered".into(), json!({"len": b.len})));
        }
    }
    Ok(())
}

fn scratch_replay(path: &[SOp]) -> Result<Vec<Borrow>, (usize, Bad)> {
    init(SCRATCH_CAP).expect("scratch init");
    let mut stack = Vec::new();
    let mut pat = 1u8;
    for (i, op) in path.iter().enumerate() {
        if let Err(b) = scratch_apply(&mut stack, op, &mut pat) {
            // release LIFO before reporting
            while let Some(x) = stack.pop() {
                drop(x);
            }
            return Err((i, b));
        }
    }
    Ok(stack)
}

fn scratch_enabled(stack: &[Borrow], op: &SOp) -> bool {
    match op {
        SOp::BorrowNone => stack.len() < 4,
        SOp::BorrowConflictNewest => !stack.is_empty() && stack.len() < 4,
        SOp::Alloc(_) | SOp::Release => !stack.is_empty(),
    }
}

impl Space for ScratchBfs {
    fn id(&self) -> String {
        format!("scratch-bfs-depth{}-{}", self.depth, self.profile.dir())
    }
    fn size(&self) -> u64 {
        1
    }
    fn profile(&self) -> Profile {
        self.profile
    }
    fn chunk(&self) -> u64 {
        1
    }
    fn case_timeout_ms(&self) -> u64 {
        1_800_000
    }
    fn describe(&self, _i: u64) -> String {
        format!("all LIFO borrow/conflict-borrow/alloc/release sequences of length <= {} on the global scratch arenas", self.depth)
    }
    fn run(&self, _ctx: &mut Ctx, _i: u64) -> Outcome {
        let ops = [SOp::BorrowNone, SOp::BorrowConflictNewest, SOp::Alloc(24), SOp::Alloc(70_000), SOp::Release];
        let mut queue: VecDeque<Vec<SOp>> = VecDeque::new();
        queue.push_back(vec![]);
        let mut seen: HashSet<Vec<usize>> = HashSet::new();
        let mut transitions = 0u64;
        let mut sample = None;
        while let Some(path) = queue.pop_front() {
            for op in &ops {
                let Ok(mut stack) = scratch_replay(&path) else { continue };
                if !scratch_enabled(&stack, op) {
                    while let Some(x) = stack.pop() {
                        drop(x);
                    }
                    continue;
                }
                transitions += 1;
                let mut pat = 0x80u8;
                let r = scratch_apply(&mut stack, op, &mut pat);
                let k: Vec<usize> = {
                    let mut k = vec![stack.len()];
                    let base0 = stack.first().map_or(0, |s| s.base);
                    for s in &stack {
                        k.push(usize::from(s.base != base0));
                        k.push(s.offset_at_borrow);
                        for b in &s.blocks {
                            k.push(b.start - s.base);
                            k.push(b.len);
                        }
                        k.push(usize::MAX);
                    }
                    k
                };
                while let Some(x) = stack.pop() {
                    drop(x);
                }
                if let Err((class, detail)) = r {
                    let mut full = path.clone();
                    full.push(op.clone());
                    return Outcome::bad("violation", Violation::new(class, format!("scratch: {full:?}"), detail));
                }
                if seen.insert(k) && path.len() + 1 < self.depth {
                    let mut full = path.clone();
                    full.push(op.clone());
                    if sample.is_none() && full.len() >= 4 {
                        sample = Some(json!(format!("{full:?}")));
                    }
                    queue.push_back(full);
                }
            }
        }
        Outcome {
            nontrivial: true,
            class: "explored".into(),
            violations: vec![],
            counters: vec![("states", seen.len() as u64), ("transitions", transitions), ("traces_validated_against_impl", transitions)],
            sample,
        }
    }
}
