//! C07 — the front end is total: any text yields diagnostics or a program, not a crash.
//! E1 over source texts: atom concatenations, token-level mutations of a corpus, scale family.

use std::time::Duration;

use serde_json::json;

use crate::ast::{TK, Tok};
use crate::cli::{self, Build, Input};
use crate::drive::{self, Ctx};
use crate::engine::{Outcome, Profile, PropMeta, Space, Tier, Violation};
use crate::util::Strings;

pub fn meta(_tier: Tier) -> PropMeta {
    PropMeta {
        id: "C07",
        level: "exploration",
        rule: "(i) every concatenation, without separators, of up to N atoms (quick 3 under poison + 4 under the \
               shipped profile; thorough 4 + 5) from 52 atoms: keywords incl. the multi-word ones and their \
               fragments, identifiers, `1` `1.` `1.5` `007`, `.`, both quotes, backslash, braces, all punctuation, \
               `#`, blank, LF, CR, CRLF, TAB, NUL, and 2-, 3- and 4-byte characters; (ii) every single-token \
               deletion / duplication / adjacent swap / replacement by each of 14 atoms at every token position \
               of every examples/ and tests/stress/ script and of a stride of generated programs, plus \
               truncation at every character boundary; (iii) every <= 2-atom text that produces a diagnostic, \
               newline-terminated and repeated 2^k times (k <= 12 quick, <= 14 thorough), through the library and \
               through the real naija (dev and release) which must render them without crashing; also through \
               naija: a text with an error diagnostic never prints the marker of a leading shout. For each text: \
               the lexer iterated on its own, the parser and (when the parse is clean, as the CLI does) the \
               resolver finish without panic/abort within the wall cap; every token, diagnostic and label span \
               is ordered, inside the text and on character boundaries; token spans are monotone; render_ansi \
               returns valid UTF-8. Non-trivial = at least one diagnostic was produced and rendered; distinct by \
               text"
            .into(),
        assumptions: vec![
            "all UTF-8 strings cannot be enumerated: the claim is the stated atom alphabet, lengths and corpus".into(),
        ],
        explanation: String::new(),
    }
}

pub const ATOMS: &[&str] = &[
    "make", "get", "add", "minus", "if to say", "if not so", "if", "to", "say", "not", "so", "small pass", "small",
    "pass", "jasi", "start", "end", "comot", "next", "do", "return", "true", "null", "na", "and", "or", "x", "_y1",
    "1", "1.", "1.5", "007", ".", "\"", "'", "\\", "{", "}", "(", ")", "[", "]", ",", "#", " ", "\n", "\r", "\r\n",
    "\t", "\0", "é", "€", "😆",
];

/// a second alphabet that stays inside (unterminated, escaped, interpolated, multi-byte) string
/// literals, where the lexer keeps cursors across several steps
pub const STRING_ATOMS: &[&str] = &[
    "\"", "\\t", "\\\"", "\\\\", "\\", "\\q", "é", "好", "😀", "x", " ", "\n", "\r", "{", "}", "{x}", "#", "'",
];

fn check_text(ctx: &Ctx, text: &str) -> Outcome {
    match drive::front_total(ctx, text) {
        Ok(st) => Outcome::ok(
            if st.diagnostics > 0 { "ok:diagnostics" } else if st.parsed_clean { "ok:clean" } else { "ok" },
            st.rendered_bytes > 0,
        ),
        Err((class, detail)) => Outcome::bad(
            "violation",
            Violation::new(class, text, json!({"detail": detail, "text_debug": format!("{text:?}")})),
        ),
    }
}

struct AtomSpace {
    name: &'static str,
    profile: Profile,
    strings: Strings,
}

impl Space for AtomSpace {
    fn id(&self) -> String {
        format!("{}-le{}-{}", self.name, self.strings.max_len, self.profile.dir())
    }
    fn size(&self) -> u64 {
        self.strings.count()
    }
    fn profile(&self) -> Profile {
        self.profile
    }
    fn chunk(&self) -> u64 {
        16_384
    }
    fn describe(&self, i: u64) -> String {
        self.strings.nth(i)
    }
    fn run(&self, ctx: &mut Ctx, i: u64) -> Outcome {
        check_text(ctx, &self.strings.nth(i))
    }
    fn replay(&self, ctx: &mut Ctx, input: &str) -> Option<serde_json::Value> {
        let o = check_text(ctx, input);
        Some(json!({"violation": !o.violations.is_empty(), "class": o.violations.first().map(|v| v.class.clone())}))
    }
}

// ---------------------------------------------------------------------------------------

const REPLACEMENTS: &[&str] = &["make", "get", "end", "start", "(", ")", "[", "\"", "1.", "if to say", "do", ",", "é", "return"];

struct Corpus {
    profile: Profile,
    files: Vec<(String, String)>,
    double: bool,
}

fn corpus_files(thorough: bool) -> Vec<(String, String)> {
    let mut v = Vec::new();
    for dir in [format!("{}/examples", crate::util::repo_root()), format!("{}/tests/stress", crate::util::repo_root())] {
        if let Ok(rd) = std::fs::read_dir(dir) {
            let mut files: Vec<_> = rd.flatten().map(|e| e.path()).collect();
            files.sort();
            for f in files {
                if f.extension().is_some_and(|e| e == "ns")
                    && let Ok(src) = std::fs::read_to_string(&f)
                {
                    v.push((f.display().to_string(), src));
                }
            }
        }
    }
    // a stride of generated programs
    let g = crate::props::c01::layout_hosts(thorough);
    let stride = if thorough { 7 } else { 23 };
    let mut i = 0;
    while i < g.count {
        v.push((format!("generated#{i}"), crate::ast::print(&g.nth(i))));
        i += stride;
    }
    v
}

fn join(toks: &[Tok]) -> String {
    toks.iter().map(|t| t.text.as_str()).collect::<Vec<_>>().join(" ")
}

impl Space for Corpus {
    fn id(&self) -> String {
        format!("corpus-mutations{}-{}", if self.double { "-dev2" } else { "" }, self.profile.dir())
    }
    fn size(&self) -> u64 {
        self.files.len() as u64
    }
    fn profile(&self) -> Profile {
        self.profile
    }
    fn chunk(&self) -> u64 {
        4
    }
    fn case_timeout_ms(&self) -> u64 {
        600_000
    }
    fn describe(&self, i: u64) -> String {
        format!("all single-token mutations and truncations of {}", self.files[i as usize].0)
    }
    fn run(&self, ctx: &mut Ctx, i: u64) -> Outcome {
        let (name, src) = &self.files[i as usize];
        let mut texts = 0u64;
        let mut rendered = 0u64;
        let mut run = |text: &str| -> Option<Outcome> {
            texts += 1;
            let o = check_text(ctx, text);
            if o.nontrivial {
                rendered += 1;
            }
            if o.violations.is_empty() { None } else { Some(o) }
        };
        // the file itself, and every truncation at a character boundary
        if let Some(o) = run(src) {
            return o;
        }
        let limit = if src.len() > 4000 { 4000 } else { src.len() };
        for (k, _) in src.char_indices() {
            if k > limit {
                break;
            }
            if let Some(o) = run(&src[..k]) {
                return o;
            }
        }
        // also a truncation in the tail of long files
        for (k, _) in src.char_indices().rev().take(200) {
            if let Some(o) = run(&src[..k]) {
                return o;
            }
        }
        let Some(toks) = tokenize_lossy(src) else {
            return Outcome::ok("ok:truncations-only", rendered > 0);
        };
        let n = toks.len().min(1500);
        let mutate = |base: &[Tok], pos: usize, op: usize| -> Option<Vec<Tok>> {
            let mut t = base.to_vec();
            match op {
                0 => {
                    t.remove(pos);
                }
                1 => t.insert(pos, base[pos].clone()),
                2 => {
                    if pos + 1 >= t.len() {
                        return None;
                    }
                    t.swap(pos, pos + 1);
                }
                k => t[pos] = Tok { text: REPLACEMENTS[k - 3].to_string(), kind: TK::Word, kw_inner: false },
            }
            Some(t)
        };
        let nops = 3 + REPLACEMENTS.len();
        for pos in 0..n {
            for op in 0..nops {
                let Some(m) = mutate(&toks, pos, op) else { continue };
                if let Some(o) = run(&join(&m)) {
                    return o;
                }
                // deviation bound 2 on small programs
                if self.double && toks.len() <= 25 {
                    for pos2 in pos..m.len() {
                        for op2 in 0..nops {
                            let Some(m2) = mutate(&m, pos2, op2) else { continue };
                            if let Some(o) = run(&join(&m2)) {
                                return o;
                            }
                        }
                    }
                }
            }
        }
        let _ = name;
        Outcome {
            nontrivial: rendered > 0,
            class: "ok".into(),
            violations: vec![],
            counters: vec![("texts", texts), ("texts_with_rendered_diagnostics", rendered)],
            sample: None,
        }
    }
}

/// words / numbers / strings / punctuation / anything else as single-character tokens
fn tokenize_lossy(src: &str) -> Option<Vec<Tok>> {
    let mut out = Vec::new();
    let b: Vec<char> = src.chars().collect();
    let mut i = 0;
    while i < b.len() {
        let c = b[i];
        if c.is_whitespace() {
            i += 1;
        } else if c == '#' {
            while i < b.len() && b[i] != '\n' && b[i] != '\r' {
                i += 1;
            }
        } else if c == '"' || c == '\'' {
            let q = c;
            let mut s = String::from(c);
            i += 1;
            while i < b.len() {
                let d = b[i];
                s.push(d);
                i += 1;
                if d == '\\' && i < b.len() {
                    s.push(b[i]);
                    i += 1;
                } else if d == q || d == '\n' {
                    break;
                }
            }
            out.push(Tok { text: s, kind: TK::Str, kw_inner: false });
        } else if c.is_ascii_alphanumeric() || c == '_' {
            let mut s = String::new();
            while i < b.len() && (b[i].is_ascii_alphanumeric() || b[i] == '_' || (b[i] == '.' && s.chars().all(|x| x.is_ascii_digit()) && i + 1 < b.len() && b[i + 1].is_ascii_digit())) {
                s.push(b[i]);
                i += 1;
            }
            out.push(Tok { text: s, kind: TK::Word, kw_inner: false });
        } else {
            out.push(Tok { text: c.to_string(), kind: TK::Punct, kw_inner: false });
            i += 1;
        }
    }
    if out.is_empty() { None } else { Some(out) }
}

// ---------------------------------------------------------------------------------------

/// every <= 2-atom text that produces a diagnostic, repeated 2^k times
struct Scale {
    profile: Profile,
    units: Vec<String>,
    ks: Vec<u32>,
}

fn diagnostic_units() -> Vec<String> {
    // every distinct <= 2-atom text (whether it yields a diagnostic is observed at run time:
    // nothing of the code under test runs while the space is being built)
    let s = Strings::new(ATOMS, 2);
    let mut v = Vec::new();
    let mut seen = std::collections::HashSet::new();
    for i in 0..s.count() {
        let t = s.nth(i);
        if t.contains('\0') || !seen.insert(t.clone()) {
            continue;
        }
        v.push(format!("{t}\n"));
    }
    // plus semantic errors and analysis warnings (longer than 2 atoms)
    for extra in ["shout(nope)\n", "make z get 0\n", "x get 1\n", "make q get 1 minus \"a\"\n", "do f() start return 1 shout(2) end\n", "\tmake\t\n", "make é get 😆\r\n"] {
        v.push(extra.to_string());
    }
    v
}

impl Space for Scale {
    fn id(&self) -> String {
        format!("scale-library-{}", self.profile.dir())
    }
    fn size(&self) -> u64 {
        self.units.len() as u64
    }
    fn profile(&self) -> Profile {
        self.profile
    }
    fn chunk(&self) -> u64 {
        4
    }
    fn case_timeout_ms(&self) -> u64 {
        300_000
    }
    fn describe(&self, i: u64) -> String {
        format!("{:?} repeated 2^k times, k in {:?}", self.units[i as usize], self.ks)
    }
    fn run(&self, ctx: &mut Ctx, i: u64) -> Outcome {
        let unit = &self.units[i as usize];
        let mut rendered = 0;
        for &k in &self.ks {
            let text = unit.repeat(1 << k);
            match drive::front_total(ctx, &text) {
                Ok(st) => rendered += u64::from(st.rendered_bytes > 0),
                Err((class, detail)) => {
                    return Outcome::bad(
                        "violation",
                        Violation::new(class, format!("{unit:?} x 2^{k}"), json!({"detail": detail, "bytes": text.len()})),
                    );
                }
            }
            ctx.trim();
        }
        Outcome { nontrivial: rendered > 0, class: "ok".into(), violations: vec![], counters: vec![("texts", self.ks.len() as u64)], sample: None }
    }
}

/// Static checking terminates also where the inferred return types of hoisted functions feed
/// each other: three functions whose bodies are one `return` over a call of another one, every
/// combination of expression forms and both wirings (f -> g -> h -> f and f -> g -> f, h -> h).
struct ReturnTypeCycles;

const RET_FORMS: &[&str] = &[
    "X(n)", "not X(n)", "minus X(n)", "X(n) na 1", "X(n) add 1", "X(n) add \"s\"", "X(n) minus 1", "X(n) and true", "[X(n)]", "X(n).len()",
    "X(n) or null", "X(n) na \"s\"",
];

impl ReturnTypeCycles {
    fn text(i: u64) -> String {
        let k = RET_FORMS.len() as u64;
        let (a, b, c, wiring) = (i % k, (i / k) % k, (i / (k * k)) % k, i / (k * k * k));
        let form = |idx: u64, callee: &str| RET_FORMS[idx as usize].replace('X', callee);
        let (fg, gh, hf) = if wiring == 0 { ("g", "h", "f") } else { ("g", "f", "h") };
        format!(
            "do f(n) start if to say (n small pass 1) start return true end return {} end\ndo g(n) start return {} end\ndo h(n) start return {} end\nshout(f(0))\n",
            form(a, fg), form(b, gh), form(c, hf)
        )
    }
}

impl Space for ReturnTypeCycles {
    fn id(&self) -> String {
        "return-type-cycles-fast".into()
    }
    fn size(&self) -> u64 {
        2 * (RET_FORMS.len() as u64).pow(3)
    }
    fn profile(&self) -> Profile {
        Profile::Fast
    }
    fn chunk(&self) -> u64 {
        64
    }
    fn case_timeout_ms(&self) -> u64 {
        20_000
    }
    fn describe(&self, i: u64) -> String {
        Self::text(i)
    }
    fn run(&self, ctx: &mut Ctx, i: u64) -> Outcome {
        check_text(ctx, &Self::text(i))
    }
}

/// Very long token runs through the lexer alone: a unit repeated 2^k times for k far beyond what
/// the whole front end is pushed through (per-token recursion or quadratic rescans show here).
struct DeepLex {
    units: Vec<String>,
    ks: Vec<u32>,
}

impl Space for DeepLex {
    fn id(&self) -> String {
        "lexer-long-runs-fast".into()
    }
    fn size(&self) -> u64 {
        self.units.len() as u64
    }
    fn profile(&self) -> Profile {
        Profile::Fast
    }
    fn chunk(&self) -> u64 {
        2
    }
    fn case_timeout_ms(&self) -> u64 {
        300_000
    }
    fn describe(&self, i: u64) -> String {
        format!("{:?} repeated 2^k times through the lexer, k in {:?}", self.units[i as usize], self.ks)
    }
    fn run(&self, ctx: &mut Ctx, i: u64) -> Outcome {
        let unit = &self.units[i as usize];
        let mut tokens = 0u64;
        for &k in &self.ks {
            let text = unit.repeat(1 << k);
            match drive::lexer_total(ctx, &text) {
                Ok(st) => tokens += st.tokens as u64,
                Err((class, detail)) => {
                    return Outcome::bad(
                        "violation",
                        Violation::new(class, format!("{unit:?} x 2^{k}"), json!({"detail": detail, "bytes": text.len()})),
                    );
                }
            }
            ctx.trim();
        }
        Outcome { nontrivial: tokens > 0, class: "ok".into(), violations: vec![], counters: vec![("tokens", tokens)], sample: None }
    }
}

/// the same family (thinned) and the "only executed if clean" clause through the real binary
struct ScaleCli {
    units: Vec<String>,
    ks: Vec<u32>,
}

impl Space for ScaleCli {
    fn id(&self) -> String {
        "scale-and-marker-naija".into()
    }
    fn size(&self) -> u64 {
        self.units.len() as u64 * 2
    }
    fn chunk(&self) -> u64 {
        2
    }
    fn case_timeout_ms(&self) -> u64 {
        4_000_000
    }
    fn describe(&self, i: u64) -> String {
        let b = if i % 2 == 0 { Build::Dev } else { Build::Release };
        format!("naija({}) on shout(\"M\") + {:?} repeated 2^k times, k in {:?}", b.name(), self.units[(i / 2) as usize], self.ks)
    }
    fn run(&self, ctx: &mut Ctx, i: u64) -> Outcome {
        let build = if i % 2 == 0 { Build::Dev } else { Build::Release };
        let unit = &self.units[(i / 2) as usize];
        let mut runs = 0;
        for &k in &self.ks {
            let text = format!("shout(\"M\")\n{}", unit.repeat(1 << k));
            // what the library says about this text
            let (front, all) = drive::run_front(ctx, &text);
            ctx.trim();
            let has_error = !matches!(front, drive::Front::Accepted);
            // rendering locates every diagnostic by scanning the source from its start: 16 384
            // diagnostics over 100 KB take ~90 s in the dev build on an idle machine. Slow is
            // not a verdict; only a run that exceeds ten times that counts as not terminating.
            let r = cli::run(build, Input::File(&text), None, Duration::from_secs(if build == Build::Dev { 900 } else { 300 }));
            runs += 1;
            let input = format!("naija({}) file: shout(\"M\")\\n + {unit:?} x 2^{k}", build.name());
            if r.timed_out {
                return Outcome::bad("violation", Violation::new("cli-hang", input, json!({"bytes": text.len()})));
            }
            if let Some(why) = r.crashed() {
                return Outcome::bad("violation", Violation::new("cli-crash-while-reporting", input, json!({"why": why, "bytes": text.len(), "diagnostics": all.len()})));
            }
            let out = String::from_utf8_lossy(&r.stdout);
            let printed_marker = out.lines().any(|l| l == "M");
            if has_error && printed_marker {
                return Outcome::bad("violation", Violation::new("text-with-error-diagnostic-was-executed", input, json!({"diagnostics": all.len()})));
            }
            if has_error && r.code == Some(0) {
                return Outcome::bad("violation", Violation::new("error-diagnostic-but-exit-0", input, json!({})));
            }
            if !has_error && !printed_marker {
                return Outcome::bad("violation", Violation::new("clean-text-not-executed", input, json!({"stdout": out.chars().take(200).collect::<String>()})));
            }
        }
        Outcome { nontrivial: true, class: "ok".into(), violations: vec![], counters: vec![("cli_runs", runs)], sample: None }
    }
}

/// deep and long-chained source (the C08 syntactic shapes) through the library front end
struct Nesting {
    texts: Vec<(String, String)>,
}

impl Space for Nesting {
    fn id(&self) -> String {
        "nesting-shapes-library".into()
    }
    fn size(&self) -> u64 {
        self.texts.len() as u64
    }
    fn profile(&self) -> Profile {
        Profile::Poison
    }
    fn chunk(&self) -> u64 {
        4
    }
    fn case_timeout_ms(&self) -> u64 {
        120_000
    }
    fn describe(&self, i: u64) -> String {
        format!("front end on shape {}", self.texts[i as usize].0)
    }
    fn run(&self, ctx: &mut Ctx, i: u64) -> Outcome {
        let (name, text) = &self.texts[i as usize];
        let mut o = check_text(ctx, text);
        for v in &mut o.violations {
            v.input = format!("shape {name}");
            v.signature = v.input.clone();
        }
        ctx.trim();
        o
    }
}

pub fn spaces(tier: Tier) -> Vec<Box<dyn Space>> {
    let t = tier == Tier::Thorough;
    let mut v: Vec<Box<dyn Space>> = Vec::new();
    v.push(Box::new(AtomSpace { name: "atoms", profile: Profile::Poison, strings: Strings::new(ATOMS, if t { 4 } else { 3 }) }));
    v.push(Box::new(AtomSpace { name: "atoms", profile: Profile::Fast, strings: Strings::new(ATOMS, if t { 5 } else { 4 }) }));
    v.push(Box::new(AtomSpace { name: "string-atoms", profile: Profile::Poison, strings: Strings::new(STRING_ATOMS, if t { 5 } else { 4 }) }));
    v.push(Box::new(AtomSpace { name: "string-atoms", profile: Profile::Fast, strings: Strings::new(STRING_ATOMS, if t { 7 } else { 5 }) }));
    let files = corpus_files(t);
    v.push(Box::new(Corpus { profile: Profile::Poison, files: files.clone(), double: false }));
    if t {
        v.push(Box::new(Corpus { profile: Profile::Fast, files, double: true }));
    }
    v.push(Box::new(Nesting { texts: crate::props::c08::syntactic_shape_texts(if t { &[4, 16, 64, 200, 256, 300, 1024, 4096] } else { &[4, 64, 128, 200, 230, 256, 1024, 4096] }) }));
    let units = diagnostic_units();
    v.push(Box::new(Scale { profile: Profile::Poison, units: units.clone(), ks: if t { (0..=14).collect() } else { vec![0, 1, 6, 11] } }));
    v.push(Box::new(ReturnTypeCycles));
    // quick: every single-atom unit (with a blank or a newline after it) at 2^20; thorough: every unit at 2^17 and 2^20
    let deep_units: Vec<String> = if t {
        units.clone()
    } else {
        ATOMS.iter().filter(|a| !a.contains('\0')).flat_map(|a| [format!("{a} "), format!("{a}\n")]).collect()
    };
    // plus every string atom inside a literal of either quote (escapes make the lexer build the text in a buffer)
    let mut deep_units = deep_units;
    for a in STRING_ATOMS.iter().filter(|a| !a.contains(['"', '\'', '\n', '\r'])) {
        deep_units.push(format!("\"{a}\"\n"));
        deep_units.push(format!("'x{a}' "));
    }
    v.push(Box::new(DeepLex { units: deep_units, ks: if t { vec![17, 20] } else { vec![20] } }));
    // thinned for the subprocess runs
    let cli_units: Vec<String> = units.iter().step_by(if t { 7 } else { 41 }).cloned().collect();
    v.push(Box::new(ScaleCli { units: cli_units, ks: if t { vec![0, 6, 11, 14] } else { vec![0, 11] } }));
    v
}
