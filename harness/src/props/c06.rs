//! C06 — an accepted program can never crash the interpreter.
//! E1: the finite product  position × runtime type × route-that-hides-the-type.

use serde_json::json;

use crate::ast::*;
use crate::drive::{self, Ctx, End, Front, M0, M3, RunOpts};
use crate::engine::{Outcome, Profile, PropMeta, Space, Tier, Violation};
use crate::gen_prog::{Gen, pair, triple};

pub fn meta(_tier: Tier) -> PropMeta {
    PropMeta {
        id: "C06",
        level: "exploration",
        rule: "the full product of (a) every dynamically typed position — each operand slot of the 10 binary \
               (all 7x7 runtime type pairs) and 2 unary operators, if/jasi conditions, and/or operands, index \
               base and index value on read and write paths, the receiver and every argument of every \
               documented method and global, placeholders, return/store/push — with (b) every runtime type \
               (number, string, boolean, null, array, process_command, process_result from a real run) and (c) \
               every route by which the static checker loses the type (parameter, array element, pop() result, \
               function with mixed return types, identity call, re-assignment after make); plus the \
               accepted-but-odd shapes (loop control in a function nested in a loop, call of a hoisted \
               function before a captured variable's make) and every program of the C03 analysis alphabet. \
               Each accepted program is run in M0 (and M3); Panic/abort is a violation. Non-trivial = \
               accepted by the static checker; distinct by program text"
            .into(),
        assumptions: vec![
            "only programs the real front end accepts are judged; rejected ones are counted".into(),
            "unwinding panics are caught in-process, non-unwinding aborts are attributed by the engine's worker isolation".into(),
        ],
        explanation: String::new(),
    }
}

#[derive(Clone, Copy, PartialEq, Eq, Debug)]
enum Ty {
    Num,
    Str,
    Bool,
    Null,
    Arr,
    Cmd,
    Res,
}

const TYPES: [Ty; 7] = [Ty::Num, Ty::Str, Ty::Bool, Ty::Null, Ty::Arr, Ty::Cmd, Ty::Res];

fn value_of(t: Ty) -> E {
    match t {
        Ty::Num => num("1"),
        Ty::Str => st("s"),
        Ty::Bool => E::Bool(true),
        Ty::Null => E::Null,
        Ty::Arr => E::Arr(vec![num("1")]),
        Ty::Cmd => call("command", vec![st("true")]),
        Ty::Res => var("pr"),
    }
}

fn needs_run(t: Ty) -> bool {
    t == Ty::Res
}

/// route: wraps `uses` (statements that use the variable `d`) so that `d` holds `v` with a
/// static type the checker cannot see
fn route(k: u8, v: E, uses: Vec<S>) -> Vec<S> {
    match k {
        0 => vec![func("f", &["d"], uses), S::Expr(call("f", vec![v]))],
        1 => {
            let mut p = vec![make("box", E::Arr(vec![v])), make("d", idx(var("box"), num("0")))];
            p.extend(uses);
            p
        }
        2 => {
            let mut p = vec![make("box", E::Arr(vec![v])), make("d", meth(var("box"), "pop", vec![]))];
            p.extend(uses);
            p
        }
        3 => {
            let mut p = vec![
                func("mx", &["k"], vec![S::If(var("k"), vec![S::Ret(Some(v))], None), S::Ret(Some(num("0")))]),
                make("d", call("mx", vec![E::Bool(true)])),
            ];
            p.extend(uses);
            p
        }
        4 => {
            let mut p = vec![func("id", &["q"], vec![S::Ret(Some(var("q")))]), make("d", call("id", vec![v]))];
            p.extend(uses);
            p
        }
        _ => {
            // declared as a number, re-assigned to something else
            let mut p = vec![make("d", num("1")), set("d", v)];
            p.extend(uses);
            p
        }
    }
}

fn positions() -> Vec<Vec<S>> {
    let d = || var("d");
    let mut v: Vec<Vec<S>> = Vec::new();
    let lits = [num("2"), st("t"), E::Bool(false), E::Null, E::Arr(vec![num("0")])];
    for op in [Op::Add, Op::Sub, Op::Mul, Op::Div, Op::Mod, Op::Eq, Op::Gt, Op::Lt, Op::And, Op::Or] {
        for l in &lits {
            v.push(vec![shout(bin(op, d(), l.clone()))]);
            v.push(vec![shout(bin(op, l.clone(), d()))]);
        }
        v.push(vec![shout(bin(op, d(), d()))]);
    }
    v.push(vec![shout(E::Not(Box::new(d())))]);
    v.push(vec![shout(E::Neg(Box::new(d())))]);
    v.push(vec![S::If(d(), vec![shout(st("t"))], Some(vec![shout(st("e"))]))]);
    v.push(vec![S::Loop(d(), vec![shout(st("body")), S::Break])]);
    v.push(vec![shout(idx(d(), num("0")))]);
    v.push(vec![shout(idx(idx(d(), num("0")), num("0")))]);
    v.push(vec![make("arr", E::Arr(vec![num("5"), num("6")])), shout(idx(var("arr"), d()))]);
    v.push(vec![S::SetIdx(idx(d(), num("0")), num("9")), shout(d())]);
    v.push(vec![S::SetIdx(idx(idx(d(), num("0")), num("0")), num("9")), shout(d())]);
    v.push(vec![make("arr", E::Arr(vec![num("5"), num("6")])), S::SetIdx(idx(var("arr"), d()), num("9")), shout(var("arr"))]);
    v.push(vec![make("arr", E::Arr(vec![num("5")])), S::SetIdx(idx(var("arr"), num("0")), d()), shout(var("arr"))]);
    // receiver of every method
    let methods: &[(&str, usize)] = &[
        ("len", 0), ("slice", 2), ("to_uppercase", 0), ("to_lowercase", 0), ("find", 1), ("replace", 2), ("trim", 0),
        ("to_number", 0), ("split", 1), ("push", 1), ("pop", 0), ("reverse", 0), ("join", 1), ("abs", 0), ("sqrt", 0),
        ("floor", 0), ("ceil", 0), ("round", 0), ("arg", 1), ("cwd", 1), ("env", 2), ("stdin_text", 1),
        ("stdin_inherit", 0), ("stdin_null", 0), ("stdout_capture", 0), ("stdout_inherit", 0), ("stdout_null", 0),
        ("stderr_capture", 0), ("stderr_inherit", 0), ("stderr_null", 0), ("timeout_ms", 1), ("success", 0),
        ("exit_code", 0), ("stdout", 0), ("stderr", 0), ("nosuch", 0),
    ];
    for (m, ar) in methods {
        let args: Vec<E> = match (*m, ar) {
            ("slice", _) => vec![num("0"), num("1")],
            ("timeout_ms", _) => vec![num("100")],
            (_, 0) => vec![],
            (_, 1) => vec![st("a")],
            _ => vec![st("a"), st("b")],
        };
        v.push(vec![shout(meth(d(), m, args.clone()))]);
        v.push(vec![make("w", E::Arr(vec![d()])), shout(meth(idx(var("w"), num("0")), m, args))]);
    }
    // wrong argument counts on receivers whose type the checker cannot see
    for (m, ar) in methods {
        let too_few: Vec<E> = (0..ar.saturating_sub(1)).map(|_| st("a")).collect();
        let too_many: Vec<E> = (0..ar + 1).map(|_| st("a")).collect();
        if *ar > 0 {
            v.push(vec![shout(meth(d(), m, too_few))]);
        }
        v.push(vec![shout(meth(d(), m, too_many))]);
    }
    // member access without a call, call of something that is not a function name
    v.push(vec![shout(E::Meth(Box::new(d()), "len".into(), vec![]))]);
    // `run` on everything but a real command (which would spawn); wrong-typed receivers only
    v.push(vec![S::If(bin(Op::Eq, call("typeof", vec![d()]), st("process_command")), vec![], Some(vec![shout(meth(d(), "run", vec![]))]))]);
    // every argument of every method / global
    let s = || st("a,b");
    v.push(vec![shout(meth(s(), "find", vec![d()]))]);
    v.push(vec![shout(meth(s(), "replace", vec![d(), st("x")]))]);
    v.push(vec![shout(meth(s(), "replace", vec![st(","), d()]))]);
    v.push(vec![shout(meth(s(), "slice", vec![d(), num("1")]))]);
    v.push(vec![shout(meth(s(), "slice", vec![num("0"), d()]))]);
    v.push(vec![shout(meth(s(), "split", vec![d()]))]);
    v.push(vec![shout(meth(E::Arr(vec![num("1"), num("2")]), "join", vec![d()]))]);
    v.push(vec![make("arr", E::Arr(vec![])), S::Expr(meth(var("arr"), "push", vec![d()])), shout(var("arr")), shout(meth(var("arr"), "join", vec![st("-")]))]);
    for (m, two) in [("arg", false), ("cwd", false), ("stdin_text", false), ("timeout_ms", false), ("env", true)] {
        if two {
            v.push(vec![make("pc2", call("command", vec![st("true")])), S::Expr(meth(var("pc2"), m, vec![d(), st("v")])), shout(var("pc2"))]);
            v.push(vec![make("pc2", call("command", vec![st("true")])), S::Expr(meth(var("pc2"), m, vec![st("K"), d()])), shout(var("pc2"))]);
        } else {
            v.push(vec![make("pc2", call("command", vec![st("true")])), S::Expr(meth(var("pc2"), m, vec![d()])), shout(var("pc2"))]);
        }
    }
    for gname in ["shout", "typeof", "to_string", "command", "read_line"] {
        v.push(vec![shout(call(gname, vec![d()]))]);
    }
    v.push(vec![shout(E::Str(vec![SP::Lit("<".into()), SP::Var("d".into()), SP::Lit(">".into())]))]);
    v.push(vec![make("y", d()), shout(var("y")), make("z", E::Arr(vec![d(), d()])), shout(var("z"))]);
    v.push(vec![shout(call("to_string", vec![E::Arr(vec![d()])]))]);
    v.push(vec![make("acc", st("")), set("acc", bin(Op::Add, var("acc"), d())), shout(var("acc"))]);
    v
}

fn product() -> Gen<Vec<S>> {
    let pos = Gen::of(positions());
    let tys = Gen::of(TYPES.to_vec());
    let routes: Gen<u8> = Gen::of(vec![0, 1, 2, 3, 4, 5]);
    triple(&pos, &tys, &routes, |uses, t, r| {
        let mut p = Vec::new();
        if needs_run(t) {
            p.push(make("pcmd", call("command", vec![st("true")])));
            p.push(make("pr", meth(var("pcmd"), "run", vec![])));
        }
        p.extend(route(r, value_of(t), uses));
        p
    })
}

/// the full 7x7 type square for every binary operator, both operands dynamic
fn binary_square() -> Gen<Vec<S>> {
    let ops = Gen::of(vec![Op::Add, Op::Sub, Op::Mul, Op::Div, Op::Mod, Op::Eq, Op::Gt, Op::Lt, Op::And, Op::Or]);
    let tys = Gen::of(TYPES.to_vec());
    let routes: Gen<u8> = Gen::of(vec![0, 1]);
    pair(&triple(&ops, &tys, &tys, |o, a, b| (o, a, b)), &routes, |(op, a, b), r| {
        let mut p = Vec::new();
        if needs_run(a) || needs_run(b) {
            p.push(make("pcmd", call("command", vec![st("true")])));
            p.push(make("pr", meth(var("pcmd"), "run", vec![])));
        }
        if r == 0 {
            p.push(func("f", &["p", "q"], vec![shout(bin(op, var("p"), var("q")))]));
            p.push(S::Expr(call("f", vec![value_of(a), value_of(b)])));
        } else {
            p.push(make("box", E::Arr(vec![value_of(a), value_of(b)])));
            p.push(shout(bin(op, idx(var("box"), num("0")), idx(var("box"), num("1")))));
        }
        p
    })
}

fn odd_shapes() -> Gen<Vec<S>> {
    let mut v: Vec<Vec<S>> = Vec::new();
    for ctl in [S::Break, S::Next] {
        // loop control inside a function that is itself inside a loop
        v.push(vec![
            make("i", num("0")),
            S::Loop(bin(Op::Lt, var("i"), num("2")), vec![
                set("i", bin(Op::Add, var("i"), num("1"))),
                func("f", &[], vec![ctl.clone()]),
                S::Expr(call("f", vec![])),
                shout(var("i")),
            ]),
        ]);
        v.push(vec![S::Loop(E::Bool(true), vec![func("f", &[], vec![S::If(E::Bool(true), vec![ctl.clone()], None)]), S::Expr(call("f", vec![])), S::Break])]);
    }
    // hoisted function called before the captured variable's `make` has executed
    v.push(vec![shout(call("f", vec![])), make("x", num("1")), func("f", &[], vec![S::Ret(Some(var("x")))])]);
    v.push(vec![S::Expr(call("f", vec![])), make("x", num("1")), func("f", &[], vec![set("x", num("2"))]), shout(var("x"))]);
    v.push(vec![S::Expr(call("f", vec![])), make("x", E::Arr(vec![])), func("f", &[], vec![S::Expr(meth(var("x"), "push", vec![num("1")]))]), shout(var("x"))]);
    v.push(vec![S::Expr(call("f", vec![])), make("x", E::Arr(vec![num("0")])), func("f", &[], vec![S::SetIdx(idx(var("x"), num("0")), num("1"))]), shout(var("x"))]);
    v.push(vec![shout(call("f", vec![])), make("x", num("1")), func("f", &[], vec![S::Ret(Some(E::Str(vec![SP::Var("x".into())])))])]);
    v.push(vec![make("x", num("0")), S::Block(vec![shout(call("f", vec![])), make("x", num("1")), func("f", &[], vec![S::Ret(Some(var("x")))])])]);
    // many locals of a nested function declared between two locals of its parent
    {
        let mut inner: Vec<S> = (0..70).map(|k| S::Make(format!("v{k}"), Some(num(&k.to_string())))).collect();
        inner.push(S::Ret(Some(bin(Op::Add, var("v0"), var("v69")))));
        v.push(vec![
            func("outer", &[], vec![
                make("a1", num("1")),
                func("inner", &[], inner.clone()),
                make("a2", num("2")),
                set("a1", num("5")),
                shout(bin(Op::Add, bin(Op::Add, var("a1"), var("a2")), call("inner", vec![]))),
            ]),
            S::Expr(call("outer", vec![])),
        ]);
        let mut top = vec![make("a1", num("1")), func("inner", &[], inner), make("a2", num("2")), set("a2", num("7"))];
        top.push(shout(bin(Op::Add, bin(Op::Add, var("a1"), var("a2")), call("inner", vec![]))));
        v.push(top);
    }
    // a store one past the end of an array that has spare capacity (grown by push, shrunk by pop)
    v.push(vec![make("a", E::Arr(vec![])), S::Expr(meth(var("a"), "push", vec![num("1")])), S::SetIdx(idx(var("a"), num("1")), num("2"))]);
    v.push(vec![make("a", E::Arr(vec![num("1"), num("2"), num("3")])), S::Expr(meth(var("a"), "pop", vec![])), S::SetIdx(idx(var("a"), num("2")), num("9"))]);
    v.push(vec![make("a", E::Arr(vec![E::Arr(vec![])])), S::Expr(meth(idx(var("a"), num("0")), "push", vec![num("1")])), S::SetIdx(idx(idx(var("a"), num("0")), num("1")), num("2"))]);
    // empty array pop result used
    v.push(vec![make("a", E::Arr(vec![])), make("s", st("x")), set("s", meth(var("a"), "pop", vec![])), shout(bin(Op::Add, var("s"), st("y")))]);
    v.push(vec![make("a", E::Arr(vec![])), shout(bin(Op::Add, meth(var("a"), "pop", vec![]), num("1")))]);
    // literal-typed but statically accepted combinations
    for rhs in [E::Bool(true), E::Null, E::Arr(vec![num("1")])] {
        v.push(vec![shout(bin(Op::Add, st("a"), rhs.clone()))]);
        v.push(vec![shout(bin(Op::Add, rhs, st("a")))]);
    }
    for (l, r) in [(E::Null, num("5")), (E::Null, st("s")), (num("5"), E::Null)] {
        v.push(vec![shout(bin(Op::Or, l.clone(), r.clone()))]);
        v.push(vec![shout(bin(Op::And, E::Not(Box::new(l)), r))]);
    }
    // index chains rooted in temporaries on the mutation paths
    v.push(vec![func("f", &[], vec![S::Ret(Some(E::Arr(vec![E::Arr(vec![num("1")])])))]), S::Expr(meth(idx(call("f", vec![]), num("0")), "push", vec![num("1")]))]);
    v.push(vec![func("f", &[], vec![S::Ret(Some(E::Arr(vec![num("1")])))]), S::Expr(meth(call("f", vec![]), "push", vec![num("1")]))]);
    v.push(vec![func("f", &[], vec![S::Ret(Some(E::Arr(vec![call("command", vec![st("true")])])))]), S::Expr(meth(idx(call("f", vec![]), num("0")), "arg", vec![st("x")]))]);
    v.push(vec![func("f", &[], vec![S::Ret(Some(E::Arr(vec![E::Arr(vec![num("1")])])))]), S::SetIdx(idx(idx(call("f", vec![]), num("0")), num("0")), num("2"))]);
    // huge / odd numbers in index and slice positions
    v.push(vec![make("a", E::Arr(vec![num("1")])), shout(idx(var("a"), bin(Op::Mul, num("100000000000"), num("100000000000"))))]);
    v.push(vec![make("a", E::Arr(vec![num("1")])), S::SetIdx(idx(var("a"), bin(Op::Mul, num("100000000000"), num("100000000000"))), num("1"))]);
    v.push(vec![shout(meth(st("abc"), "slice", vec![bin(Op::Mul, num("100000000000"), num("100000000000")), E::Neg(Box::new(bin(Op::Mul, num("100000000000"), num("100000000000"))))]))]);
    v.push(vec![shout(meth(st("abc"), "slice", vec![meth(E::Neg(Box::new(num("1"))), "sqrt", vec![]), num("2")]))]);
    v.push(vec![make("a", E::Arr(vec![num("1")])), shout(idx(var("a"), meth(E::Neg(Box::new(num("1"))), "sqrt", vec![])))]);
    Gen::of(v)
}

pub fn spaces(tier: Tier) -> Vec<Box<dyn Space>> {
    let mut v: Vec<Box<dyn Space>> = Vec::new();
    for profile in [Profile::Poison, Profile::Fast] {
        v.push(Box::new(CrashSpace { id: "position-x-type-x-route".into(), generator: product(), profile, chunk: 64 }));
        v.push(Box::new(CrashSpace { id: "binary-type-square".into(), generator: binary_square(), profile, chunk: 64 }));
        v.push(Box::new(CrashSpace { id: "odd-shapes".into(), generator: odd_shapes(), profile, chunk: 8 }));
    }
    // every program of the analysis alphabet (C03) also has to end without a crash
    let c03 = crate::props::c03::programs_for_c06(tier == Tier::Thorough);
    v.push(Box::new(CrashSpace { id: "analysis-alphabet".into(), generator: c03, profile: Profile::Fast, chunk: 4096 }));
    // what the live part of a block can still reach in the block's unreachable suffix
    let dead = crate::props::c03::dead_suffix_programs(if tier == Tier::Thorough { 3 } else { 2 });
    v.push(Box::new(CrashSpace { id: "dead-suffix".into(), generator: dead, profile: Profile::Fast, chunk: 1024 }));
    v
}

struct CrashSpace {
    id: String,
    generator: Gen<Vec<S>>,
    profile: Profile,
    chunk: u64,
}

impl Space for CrashSpace {
    fn id(&self) -> String {
        format!("{}-{}", self.id, self.profile.dir())
    }
    fn size(&self) -> u64 {
        self.generator.count
    }
    fn profile(&self) -> Profile {
        self.profile
    }
    fn chunk(&self) -> u64 {
        self.chunk
    }
    fn describe(&self, i: u64) -> String {
        print(&self.generator.nth(i))
    }
    fn run(&self, ctx: &mut Ctx, i: u64) -> Outcome {
        let p = self.generator.nth(i);
        if !printable(&p) {
            return Outcome::ok("skip:unprintable", false);
        }
        check_text(ctx, &print(&p))
    }
    fn replay(&self, ctx: &mut Ctx, input: &str) -> Option<serde_json::Value> {
        let o = check_text(ctx, input);
        Some(json!({"violation": !o.violations.is_empty(), "class": o.class,
            "detail": o.violations.first().map(|v| v.detail.clone())}))
    }
}

pub fn check_text(ctx: &Ctx, text: &str) -> Outcome {
    for mode in [M0, M3] {
        let o = drive::run_pipeline(ctx, text, mode, RunOpts::default());
        match &o.front {
            Front::Accepted => {}
            Front::Rejected(_) => return Outcome::ok("rejected-statically", false),
            Front::Panic(m) => {
                return Outcome::bad(
                    "panic",
                    Violation::new(format!("front-end-panic: {m}"), text, json!({"mode": mode.name()})),
                );
            }
        }
        if let End::Panic(m) = &o.end {
            return Outcome::bad(
                "panic",
                Violation::new(format!("panic: {m}"), text, json!({"mode": mode.name(), "obs": o.show()})),
            );
        }
        if mode == M3 {
            let class = match &o.end {
                End::Normal => "accepted:normal".to_string(),
                End::RuntimeError(k) => format!("accepted:runtime-error({k})"),
                End::Panic(_) => unreachable!(),
            };
            return Outcome::ok(class, true);
        }
    }
    unreachable!()
}
