//! C18 — exceeding an analysis budget only disables optimisation, never correctness.
//! E1 over limit × {below, at, above}: caps are read from `limits::DEFAULT_CAPS` at run time.

use std::time::Duration;

use naijascript::analysis::{cfg, limits};
use naijascript::arena::Arena;
use naijascript::diagnostics::{AsStr, Severity};
use naijascript::resolver::{Resolver, SemanticError};
use naijascript::runtime::{Runtime, Value};
use naijascript::syntax::parser::Parser;
use naijascript::syntax::scanner::Lexer;
use serde_json::json;

use crate::cli::{self, Build, Input};
use crate::drive::Ctx;
use crate::engine::{Outcome, Profile, PropMeta, Space, Tier, Violation};

pub fn meta(_tier: Tier) -> PropMeta {
    PropMeta {
        id: "C18",
        level: "exploration",
        rule: "one program family per analysis metric, each moving its metric in steps of one: statements \
               (shout(1) x N), locals (parameters of 32 functions), scopes (start end x N), direct user calls (4 \
               per statement), blocks in one function and total blocks (empty ifs in the root / in 9 functions), \
               summary events (N empty functions), liveness events (N declarations in the root). For every \
               family the smallest size at which the library's own preflight (`first_exceeded_limit`, used as \
               measuring instrument) reports a limit is located by bisection; the programs just below, at and \
               just above that size are run in full (library with large arenas; quick tier: the cheap families \
               in full and the 262 144-statement families below/at only) and, thinned, through the real naija. \
               Every program carries a fixed tail: an unused variable, a statement after a return in a called \
               function, a shout of a computed value. Oracle always: accepted, no error diagnostic, printed \
               values equal the family's closed form. Exceeded: exactly one warning, of the resource-limit kind, \
               no semantic warning, no optimisation plan. Not exceeded: no resource warning, the Unused \
               variable and Unreachable code warnings of the tail present, a plan, and the unused declaration \
               skipped at run time (hook). For the primary metrics the reported `observed` must equal the \
               harness's own count and be exactly cap + 1 at the flip. Metrics that cannot be the first \
               exceeded under the default caps (functions, cfg ops, ops in one function: another limit always \
               trips earlier) are reported as such. Non-trivial = the family's flip point was found and both \
               sides executed; distinct by (family, size)"
            .into(),
        assumptions: vec![
            "the closed-form expected output of each family replaces the reference interpreter (the programs are straight-line)".into(),
            "cap values are read from the library at run time; changing a value is not an alarm".into(),
        ],
        explanation: String::new(),
    }
}

/// every program ends with: a function with dead code, an unused variable, a computed value, and
/// a callee that reads a global from a caller holding a same-named local (100 under lexical
/// binding, 200 under dynamic binding)
const TAIL: &str = "do tailf() start return 7 shout(\"dead\") end\nmake unusedv get 5\nshout(tailf() add 1)\nmake bx get 100\ndo bcallee() start shout(bx) end\ndo bcaller() start make bx get 200 bcallee() shout(bx) end\nbcaller()\n";

#[derive(Clone, Copy, Debug, PartialEq, Eq)]
enum Family {
    Statements,
    Locals,
    Scopes,
    Calls,
    BlocksPerFunction,
    TotalBlocks,
    SummaryEvents,
    SummaryEventsWithLocals,
    LivenessEvents,
    ScopesWithStatements,
}

const FAMILIES: [Family; 10] = [
    Family::ScopesWithStatements,
    Family::SummaryEvents,
    Family::SummaryEventsWithLocals,
    Family::LivenessEvents,
    Family::BlocksPerFunction,
    Family::Calls,
    Family::Scopes,
    Family::Locals,
    Family::TotalBlocks,
    Family::Statements,
];

impl Family {
    fn name(self) -> &'static str {
        match self {
            Family::Statements => "statements",
            Family::Locals => "locals",
            Family::Scopes => "scopes",
            Family::Calls => "direct-user-calls",
            Family::BlocksPerFunction => "blocks-in-one-function",
            Family::TotalBlocks => "total-blocks",
            Family::SummaryEvents => "summary-events",
            Family::SummaryEventsWithLocals => "summary-events-functions-with-a-local-each",
            Family::LivenessEvents => "liveness-events",
            Family::ScopesWithStatements => "scopes-each-holding-a-statement",
        }
    }
    fn upper(self) -> usize {
        match self {
            Family::Statements => 300_000,
            Family::Locals => 140_000,
            Family::Scopes => 140_000,
            Family::Calls => 300_000,
            Family::BlocksPerFunction => 30_000,
            Family::TotalBlocks => 200_000,
            Family::SummaryEvents => 6_000,
            Family::SummaryEventsWithLocals => 4_000,
            Family::LivenessEvents => 8_000,
            Family::ScopesWithStatements => 140_000,
        }
    }
    /// expensive families (hundreds of thousands of statements)
    fn heavy(self) -> bool {
        matches!(self, Family::Statements | Family::TotalBlocks | Family::Locals | Family::Scopes | Family::Calls | Family::ScopesWithStatements)
    }
    /// (program text, expected printed numbers before the tail's 8, harness's own count of the family's primary metric)
    fn build(self, n: usize) -> (String, Vec<f64>, Option<(&'static str, u64)>) {
        let mut s = String::with_capacity(n * 12 + 256);
        let mut out: Vec<f64> = Vec::new();
        let mut own: Option<(&'static str, u64)> = None;
        match self {
            Family::Statements => {
                for _ in 0..n {
                    s.push_str("shout(1)\n");
                }
                out = vec![1.0; n];
                own = Some(("statements", n as u64 + 13));
            }
            Family::Locals => {
                // parameters are locals that cost no ops: 32 functions share n parameters
                let f = 32;
                for k in 0..f {
                    let p = n / f + usize::from(k < n % f);
                    s.push_str(&format!("do lf{k}("));
                    for j in 0..p {
                        if j > 0 {
                            s.push_str(", ");
                        }
                        s.push_str(&format!("p{j}"));
                    }
                    s.push_str(") start end\n");
                }
                own = Some(("locals", n as u64 + 3));
            }
            Family::Scopes => {
                for _ in 0..n {
                    s.push_str("start end\n");
                }
                // root scope + the tail's three functions (parameter scope + body each) + n
                own = Some(("scopes", n as u64 + 7));
            }
            Family::Calls => {
                s.push_str("do id(q) start return q end\n");
                let full = n / 4;
                for _ in 0..full {
                    s.push_str("shout(id(1) add id(1) add id(1) add id(1))\n");
                    out.push(4.0);
                }
                let rest = n % 4;
                if rest > 0 {
                    s.push_str("shout(");
                    for j in 0..rest {
                        if j > 0 {
                            s.push_str(" add ");
                        }
                        s.push_str("id(1)");
                    }
                    s.push_str(")\n");
                    out.push(rest as f64);
                }
                own = Some(("direct user calls", n as u64 + 3));
            }
            Family::BlocksPerFunction => {
                for _ in 0..n {
                    s.push_str("if to say (true) start end\n");
                }
            }
            Family::TotalBlocks => {
                let f = 9;
                for k in 0..f {
                    let m = n / f + usize::from(k < n % f);
                    s.push_str(&format!("do bf{k}() start\n"));
                    for _ in 0..m {
                        s.push_str("if to say (true) start end\n");
                    }
                    s.push_str("end\n");
                }
            }
            Family::SummaryEvents => {
                for k in 0..n {
                    s.push_str(&format!("do sf{k}() start end\n"));
                }
                // documented bound: functions x (functions + 2 x locals + 2), with the root, the
                // tail function and the tail's one local
                let f = n as u64 + 4;
                own = Some(("summary events", f * (f + 2 * 3 + 2)));
            }
            Family::SummaryEventsWithLocals => {
                for k in 0..n {
                    s.push_str(&format!("do sl{k}(p) start end\n"));
                }
                let f = n as u64 + 4;
                let l = n as u64 + 3;
                own = Some(("summary events", f * (f + 2 * l + 2)));
            }
            Family::LivenessEvents => {
                for k in 0..n {
                    s.push_str(&format!("make v{k} get {k}\n"));
                }
            }
            Family::ScopesWithStatements => {
                // the memory-hungriest shape near the limits: two statements and a scope per line
                s.push_str("make acc get 1\n");
                for _ in 0..n {
                    s.push_str("start acc get acc add 1 end\n");
                }
                s.push_str("shout(acc)\n");
                out.push(n as f64 + 1.0);
            }
        }
        s.push_str(TAIL);
        out.extend([8.0, 100.0, 200.0]);
        (s, out, own)
    }
}

struct Measured {
    exceeded: Option<(String, u64, u64)>,
}

/// front end + the library's own preflight, as measuring instrument
fn measure(arena: &Arena, src: &str) -> Result<Measured, String> {
    unsafe { arena.reset(0) };
    let lexer = Lexer::new(src, arena);
    let mut parser = Parser::new(lexer, arena);
    let (root, perr) = parser.parse_program();
    if !perr.diagnostics.is_empty() {
        return Err(format!("family program does not parse: {}", perr.diagnostics[0].message));
    }
    let mut resolver = Resolver::new(arena);
    resolver.resolve(root);
    if resolver.errors.has_errors() {
        return Err("family program rejected".into());
    }
    let counts = cfg::count_program(&resolver.facts, arena);
    let ex = limits::first_exceeded_limit(&resolver.facts, &counts, limits::DEFAULT_CAPS);
    Ok(Measured { exceeded: ex.map(|l| (l.metric.to_string(), l.observed, l.limit)) })
}

struct FullRun {
    accepted: bool,
    errors: Vec<String>,
    warnings: Vec<(String, String)>, // (code, message)
    plan_some: bool,
    out: Vec<f64>,
    out_ok: bool,
    ended_normally: bool,
    skipped: u64,
    arena_bytes: usize,
}

fn full_run(arena: &Arena, frame: &Arena, src: &str) -> Result<FullRun, String> {
    unsafe {
        arena.reset(0);
        frame.reset(0);
    }
    let r = std::panic::catch_unwind(std::panic::AssertUnwindSafe(|| {
        let lexer = Lexer::new(src, arena);
        let mut parser = Parser::new(lexer, arena);
        let (root, perr) = parser.parse_program();
        let mut fr = FullRun { accepted: false, errors: vec![], warnings: vec![], plan_some: false, out: vec![], out_ok: true, ended_normally: false, skipped: 0, arena_bytes: 0 };
        if !perr.diagnostics.is_empty() {
            fr.errors = perr.diagnostics.iter().map(|d| d.message.to_string()).collect();
            return fr;
        }
        let mut resolver = Resolver::new(arena);
        resolver.resolve(root);
        for d in &resolver.errors.diagnostics {
            if d.severity == Severity::Error {
                fr.errors.push(d.message.to_string());
            } else {
                fr.warnings.push((d.code.to_string(), d.message.to_string()));
            }
        }
        if !fr.errors.is_empty() {
            return fr;
        }
        fr.accepted = true;
        fr.plan_some = resolver.optimization_plan.is_some();
        fr.arena_bytes = arena.offset();
        let mut rt = Runtime::new(arena, Some(frame));
        naijascript::verif_hooks::trace_begin(false);
        rt.run_with_analysis(root, &resolver.facts, resolver.optimization_plan.as_ref());
        let (trace, _) = naijascript::verif_hooks::trace_end();
        fr.skipped = trace.stmts_skipped;
        for v in rt.output.iter() {
            match v {
                Value::Number(n) => fr.out.push(*n),
                _ => fr.out_ok = false,
            }
        }
        fr.ended_normally = rt.errors.diagnostics.is_empty();
        fr
    }));
    r.map_err(|_| crate::drive::take_panic())
}

struct LimitSpace {
    thorough: bool,
}

impl Space for LimitSpace {
    fn id(&self) -> String {
        "limit-x-below-at-above".into()
    }
    fn size(&self) -> u64 {
        FAMILIES.len() as u64
    }
    fn profile(&self) -> Profile {
        Profile::Fast
    }
    fn chunk(&self) -> u64 {
        1
    }
    fn case_timeout_ms(&self) -> u64 {
        3_600_000
    }
    fn describe(&self, i: u64) -> String {
        let f = FAMILIES[i as usize];
        format!("family {}: bisect the flip size, run flip-1 / flip / flip+1; e.g. size 2:\n{}", f.name(), f.build(2).0)
    }
    fn run(&self, _ctx: &mut Ctx, i: u64) -> Outcome {
        let fam = FAMILIES[i as usize];
        let t_case = std::time::Instant::now();
        let arena = Arena::new(12 << 30).expect("reserve analysis arena");
        let frame = Arena::new(2 << 30).expect("reserve frame arena");
        let input = |n: usize| format!("family {} size {n}", fam.name());
        let fail = |class: &str, n: usize, detail: serde_json::Value| Outcome::bad("violation", Violation::new(class, input(n), detail));
        // --- locate the flip with the library's own preflight: start from the size predicted
        // from the caps, gallop outwards to bracket the flip, then bisect inside the bracket
        let mut probes = 0u64;
        let mut probe = |n: usize| -> Result<bool, Outcome> {
            probes += 1;
            match measure(&arena, &fam.build(n).0) {
                Err(e) => Err(fail("family-program-not-accepted", n, json!(e))),
                Ok(m) => Ok(m.exceeded.is_some()),
            }
        };
        let caps = limits::DEFAULT_CAPS;
        let guess = match fam {
            Family::Statements => caps.max_statements as usize - 4,
            Family::Locals => caps.max_locals as usize,
            Family::Scopes => caps.max_scopes as usize - 2,
            Family::Calls => caps.max_direct_user_calls as usize - 2,
            Family::BlocksPerFunction => caps.max_blocks_per_function as usize / 3,
            Family::TotalBlocks => caps.max_scopes as usize - 20,
            Family::SummaryEvents => (caps.max_summary_events as f64).sqrt() as usize - 3,
            Family::SummaryEventsWithLocals => (caps.max_summary_events as f64 / 3.0).sqrt() as usize - 2,
            Family::LivenessEvents => (caps.max_liveness_events as f64).sqrt() as usize - 3,
            Family::ScopesWithStatements => caps.max_scopes as usize - 3,
        }
        .clamp(2, fam.upper());
        let (mut lo, mut hi);
        if fam == Family::Calls && !self.thorough {
            // the below-flip side of this family costs ~90 s (262 144 analysed calls): thorough only.
            // Quick checks the exceeded side at the size predicted from the cap.
            return self.calls_quick(&arena, &frame, guess);
        }
        match probe(guess) {
            Err(o) => return o,
            Ok(true) => {
                // flip <= guess: walk down
                hi = guess;
                let mut step = 1usize;
                loop {
                    let cand = hi.saturating_sub(step).max(1);
                    match probe(cand) {
                        Err(o) => return o,
                        Ok(true) => {
                            hi = cand;
                            if cand == 1 {
                                return fail("limit-exceeded-by-the-smallest-program", 1, json!(null));
                            }
                            step *= 2;
                        }
                        Ok(false) => {
                            lo = cand;
                            break;
                        }
                    }
                }
            }
            Ok(false) => {
                lo = guess;
                let mut step = 1usize;
                loop {
                    let cand = (lo + step).min(fam.upper());
                    match probe(cand) {
                        Err(o) => return o,
                        Ok(false) => {
                            if cand == fam.upper() {
                                return Outcome::ok(format!("no limit reachable below size {cand} (family {})", fam.name()), false);
                            }
                            lo = cand;
                            step *= 2;
                        }
                        Ok(true) => {
                            hi = cand;
                            break;
                        }
                    }
                }
            }
        }
        while hi - lo > 1 {
            let mid = lo + (hi - lo) / 2;
            match probe(mid) {
                Err(o) => return o,
                Ok(true) => hi = mid,
                Ok(false) => lo = mid,
            }
        }
        let flip = hi;
        let at_flip = measure(&arena, &fam.build(flip).0).ok().and_then(|m| m.exceeded);
        let Some((metric, observed, limit)) = at_flip else {
            return fail("flip-not-reproducible", flip, json!(null));
        };
        // primary metrics: the harness's own count, and exactly one over the cap at the flip
        let (_, _, own) = fam.build(flip);
        if let Some((own_metric, own_count)) = own
            && own_metric == metric
        {
            if own_count != observed {
                return fail("observed-count-differs-from-harness-count", flip, json!({"metric": metric, "library": observed, "harness": own_count}));
            }
            // metrics that move in steps of one flip exactly one above the cap
            if !metric.contains("events") && observed != limit + 1 {
                return fail("flip-not-exactly-above-the-cap", flip, json!({"metric": metric, "observed": observed, "limit": limit}));
            }
        }
        if let Some((own_metric, below)) = fam.build(flip - 1).2
            && own_metric == metric
            && below > limit
        {
            return fail("program-over-the-documented-bound-not-limited", flip - 1, json!({"metric": metric, "harness_count": below, "limit": limit}));
        }
        // --- full runs below / at / above
        let resource_msg = limits::AnalysisLimit { metric: "", observed: 0, limit: 0 }.message();
        let unused = SemanticError::UnusedVariable.as_str();
        let unreachable = SemanticError::UnreachableCode.as_str();
        let sizes: Vec<usize> = if fam == Family::ScopesWithStatements && !self.thorough {
            vec![flip] // quick: this family is there for the shipped binary (below); the library side of the below-flip run is the most expensive single step of the check
        } else if fam.heavy() && !self.thorough {
            vec![flip - 1, flip]
        } else {
            vec![flip - 1, flip, flip + 1]
        };
        let mut max_arena = 0usize;
        for &n in &sizes {
            let (src, want_out, _) = fam.build(n);
            let exceeded = n >= flip;
            let fr = match full_run(&arena, &frame, &src) {
                Ok(f) => f,
                Err(p) => return fail("panic-while-running-family-program", n, json!(p)),
            };
            max_arena = max_arena.max(fr.arena_bytes);
            if !fr.accepted {
                return fail("large-program-rejected", n, json!({"errors": fr.errors.iter().take(3).collect::<Vec<_>>()}));
            }
            if !fr.ended_normally || !fr.out_ok || fr.out != want_out {
                return fail(
                    "results-differ-from-closed-form",
                    n,
                    json!({"printed": fr.out.len(), "expected": want_out.len(), "ended_normally": fr.ended_normally,
                           "last_printed": fr.out.last(), "exceeded": exceeded}),
                );
            }
            let resource: Vec<&(String, String)> = fr.warnings.iter().filter(|(_, m)| m == resource_msg).collect();
            if exceeded {
                if resource.len() != 1 || fr.warnings.len() != 1 {
                    return fail("not-exactly-one-resource-warning-above-limit", n, json!({"warnings": fr.warnings.len(), "resource_warnings": resource.len(), "first": fr.warnings.first()}));
                }
                if fr.plan_some {
                    return fail("optimisation-plan-present-above-limit", n, json!(null));
                }
            } else {
                if !resource.is_empty() {
                    return fail("resource-warning-below-limit", n, json!({"metric": metric}));
                }
                let has = |m: &str| fr.warnings.iter().any(|(_, x)| x == m);
                if !has(unused) || !has(unreachable) {
                    return fail("analysis-warnings-missing-below-limit", n, json!({"unused_variable": has(unused), "unreachable_code": has(unreachable), "warnings": fr.warnings.len()}));
                }
                if !fr.plan_some || fr.skipped == 0 {
                    return fail("no-pruning-below-limit", n, json!({"plan": fr.plan_some, "skipped": fr.skipped}));
                }
            }
        }
        // --- the shipped binary with its real arena sizes (thinned: below and at the flip)
        let mut cli_runs = 0u64;
        // the scopes-with-statements family goes through the shipped binary in the quick tier too:
        // it is the one that needs the most memory just below and at its limit
        let cli_sizes: Vec<usize> = if fam == Family::ScopesWithStatements {
            // ... and a little further over the limit (being over a limit by 3 % is no reason to abort)
            vec![flip - 1, flip, flip + 4096]
        } else if self.thorough || !fam.heavy() {
            vec![flip - 1, flip]
        } else {
            vec![]
        };
        for &n in &cli_sizes {
            let (src, want_out, _) = fam.build(n);
            let r = cli::run(Build::Release, Input::File(&src), None, Duration::from_secs(600));
            cli_runs += 1;
            let mk = |class: &str, detail: serde_json::Value| {
                let mut v = Violation::new(class, format!("naija(release) family {} size {n}", fam.name()), detail);
                v.signature = format!("naija(release) family {} {}", fam.name(), if n >= flip { "at-flip" } else { "below-flip" });
                Outcome::bad("violation", v)
            };
            if r.timed_out {
                return mk("naija-hang-on-large-program", json!(null));
            }
            if let Some(why) = r.crashed() {
                return mk("naija-crash-on-large-program", json!({"why": why, "bytes": src.len(), "library_analysis_arena_bytes": max_arena}));
            }
            if r.code != Some(0) {
                return mk("naija-rejects-large-program", json!({"code": r.code}));
            }
            let out = String::from_utf8_lossy(&r.stdout);
            let printed: Vec<&str> = out.lines().filter(|l| l.parse::<f64>().is_ok()).collect();
            let tail_ok = printed.len() >= 3 && printed[printed.len() - 3..] == ["8", "100", "200"];
            if printed.len() != want_out.len() || !tail_ok {
                return mk("naija-results-differ", json!({"printed": printed.len(), "expected": want_out.len(), "last_three": printed.iter().rev().take(3).collect::<Vec<_>>()}));
            }
            let has_resource = out.contains(resource_msg);
            if has_resource != (n >= flip) {
                return mk("naija-resource-warning-wrong-side", json!({"has": has_resource, "size_vs_flip": n as i64 - flip as i64}));
            }
        }
        Outcome {
            nontrivial: true,
            class: format!("flip at {} (first exceeded: {metric})", flip),
            violations: vec![],
            counters: vec![("bisection_probes", probes), ("full_runs", sizes.len() as u64), ("cli_runs", cli_runs)],
            sample: Some(json!({"family": fam.name(), "flip_size": flip, "first_exceeded_metric": metric, "observed": observed, "limit": limit,
                                "analysis_arena_bytes_at_flip": max_arena, "case_wall_s": t_case.elapsed().as_secs_f64()})),
        }
    }
}

impl LimitSpace {
    fn calls_quick(&self, arena: &Arena, frame: &Arena, n: usize) -> Outcome {
        let fam = Family::Calls;
        let input = format!("family {} size {n}", fam.name());
        let fail = |class: &str, detail: serde_json::Value| Outcome::bad("violation", Violation::new(class, input.clone(), detail));
        let (src, want_out, own) = fam.build(n);
        let m = match measure(arena, &src) {
            Ok(m) => m,
            Err(e) => return fail("family-program-not-accepted", json!(e)),
        };
        let Some((metric, observed, limit)) = m.exceeded else {
            return fail("predicted-flip-size-not-exceeded", json!({"own": format!("{own:?}")}));
        };
        if let Some((own_metric, own_count)) = own
            && own_metric == metric
            && (own_count != observed || observed != limit + 1)
        {
            return fail("observed-count-differs-from-harness-count", json!({"metric": metric, "library": observed, "harness": own_count, "limit": limit}));
        }
        let fr = match full_run(arena, frame, &src) {
            Ok(f) => f,
            Err(p) => return fail("panic-while-running-family-program", json!(p)),
        };
        let resource_msg = limits::AnalysisLimit { metric: "", observed: 0, limit: 0 }.message();
        if !fr.accepted || !fr.ended_normally || fr.out != want_out {
            return fail("results-differ-from-closed-form", json!({"accepted": fr.accepted, "printed": fr.out.len(), "expected": want_out.len()}));
        }
        if fr.warnings.len() != 1 || fr.warnings[0].1 != resource_msg || fr.plan_some {
            return fail("not-exactly-one-resource-warning-above-limit", json!({"warnings": fr.warnings.len(), "plan": fr.plan_some}));
        }
        Outcome {
            nontrivial: true,
            class: format!("exceeded side only at {n} (first exceeded: {metric})"),
            violations: vec![],
            counters: vec![("bisection_probes", 1), ("full_runs", 1)],
            sample: Some(json!({"family": fam.name(), "size": n, "first_exceeded_metric": metric, "observed": observed, "limit": limit, "note": "below-flip side is thorough-only for this family"})),
        }
    }
}

// ---------------------------------------------------------------------------------------
// "Just below a limit the analyses run as usual" for call-graph *structures*: whenever the
// library's preflight reports no exceeded limit, the interprocedural results must be there —
// here observed through a dead store that is only dead if the callee's summary is known.
// ---------------------------------------------------------------------------------------

#[derive(Clone, Copy, Debug)]
enum Structure {
    Ring,
    Chain,
    Dense,
    TwoRings,
    RingWithCapture,
}

const STRUCTURES: [Structure; 5] = [Structure::Ring, Structure::Chain, Structure::Dense, Structure::TwoRings, Structure::RingWithCapture];

impl Structure {
    /// (program, expected printed numbers)
    fn build(self, n: usize) -> (String, Vec<f64>) {
        let mut s = String::new();
        let guard = "if to say (q small pass 1) start return 0 end";
        let entry;
        match self {
            Structure::Ring => {
                for k in 0..n {
                    s.push_str(&format!("do r{k}(q) start {guard} return r{}(q minus 1) end\n", (k + 1) % n));
                }
                entry = "r0(3)".to_string();
            }
            Structure::Chain => {
                for k in 0..n {
                    if k + 1 < n {
                        s.push_str(&format!("do r{k}(q) start {guard} return r{}(q minus 1) end\n", k + 1));
                    } else {
                        s.push_str(&format!("do r{k}(q) start return 0 end\n"));
                    }
                }
                entry = "r0(3)".to_string();
            }
            Structure::Dense => {
                // every function mentions every earlier one (never executed: q is 0)
                for k in 0..n {
                    s.push_str(&format!("do r{k}(q) start if to say (q pass 0) start make t get 0\n"));
                    for j in 0..k {
                        s.push_str(&format!("t get t add r{j}(0)\n"));
                    }
                    s.push_str("return t end return 0 end\n");
                }
                entry = format!("r{}(0)", n - 1);
            }
            Structure::TwoRings => {
                let h = n / 2 + 1;
                for (name, m) in [("r", h), ("u", n - h + 1)] {
                    for k in 0..m {
                        s.push_str(&format!("do {name}{k}(q) start {guard} return {name}{}(q minus 1) end\n", (k + 1) % m));
                    }
                }
                entry = "r0(3) add u0(2)".to_string();
            }
            Structure::RingWithCapture => {
                // one member of the ring reads another global: that one must stay live
                s.push_str("make seen get 40\n");
                for k in 0..n {
                    let extra = if k == n / 2 { " add seen times 0" } else { "" };
                    s.push_str(&format!("do r{k}(q) start {guard} return r{}(q minus 1){extra} end\n", (k + 1) % n));
                }
                entry = "r0(3)".to_string();
            }
        }
        // `cn get 7` is dead only if the callee is known not to read `cn`
        s.push_str(&format!("make cn get 1\nshout(cn)\ncn get 7\nshout({entry})\ncn get 2\nshout(cn)\n"));
        s.push_str(TAIL);
        (s, vec![1.0, 0.0, 2.0, 8.0, 100.0, 200.0])
    }
}

struct StructureSpace {
    sizes: Vec<usize>,
}

impl Space for StructureSpace {
    fn id(&self) -> String {
        "call-graph-structure-x-size".into()
    }
    fn size(&self) -> u64 {
        (STRUCTURES.len() * self.sizes.len()) as u64
    }
    fn profile(&self) -> Profile {
        Profile::Fast
    }
    fn chunk(&self) -> u64 {
        1
    }
    fn case_timeout_ms(&self) -> u64 {
        1_800_000
    }
    fn describe(&self, i: u64) -> String {
        let (st, n) = (STRUCTURES[i as usize / self.sizes.len()], self.sizes[i as usize % self.sizes.len()]);
        format!("{st:?} of {n} functions; e.g. 3 functions:\n{}", st.build(3).0)
    }
    fn run(&self, _ctx: &mut Ctx, i: u64) -> Outcome {
        let (st, n) = (STRUCTURES[i as usize / self.sizes.len()], self.sizes[i as usize % self.sizes.len()]);
        let arena = Arena::new(8 << 30).expect("reserve analysis arena");
        let frame = Arena::new(1 << 30).expect("reserve frame arena");
        let input = format!("{st:?} of {n} functions");
        let fail = |class: &str, detail: serde_json::Value| Outcome::bad("violation", Violation::new(class, input.clone(), detail));
        let (src, want) = st.build(n);
        let exceeded = match measure(&arena, &src) {
            Ok(m) => m.exceeded,
            Err(e) => return fail("family-program-not-accepted", json!(e)),
        };
        let fr = match full_run(&arena, &frame, &src) {
            Ok(f) => f,
            Err(p) => return fail("panic-while-running-family-program", json!(p)),
        };
        if !fr.accepted || !fr.ended_normally || !fr.out_ok || fr.out != want {
            return fail("results-differ-from-closed-form", json!({"accepted": fr.accepted, "printed": fr.out, "expected": want}));
        }
        let resource_msg = limits::AnalysisLimit { metric: "", observed: 0, limit: 0 }.message();
        let n_resource = fr.warnings.iter().filter(|(_, m)| m == resource_msg).count();
        let count = |e: SemanticError| fr.warnings.iter().filter(|(_, m)| m == e.as_str()).count();
        if exceeded.is_some() {
            if n_resource != 1 || fr.warnings.len() != 1 || fr.plan_some {
                return fail("not-exactly-one-resource-warning-above-limit", json!({"warnings": fr.warnings.len(), "resource_warnings": n_resource, "plan": fr.plan_some}));
            }
            return Outcome::ok(format!("limited ({})", exceeded.unwrap().0), true);
        }
        if n_resource != 0 {
            return fail("resource-warning-below-limit", json!({"warnings": fr.warnings.len()}));
        }
        // as usual: the tail's two warnings, the summary-dependent dead store, and pruning of both
        if count(SemanticError::UnusedVariable) != 1 || count(SemanticError::UnreachableCode) != 1 || count(SemanticError::UnusedAssignment) != 2 {
            return fail(
                "analysis-warnings-missing-below-limit",
                json!({"unused_variable": count(SemanticError::UnusedVariable), "unreachable_code": count(SemanticError::UnreachableCode),
                       "unused_assignment(the tail's unused declaration + the dead store across the call)": count(SemanticError::UnusedAssignment), "expected": [1, 1, 2]}),
            );
        }
        if !fr.plan_some || fr.skipped < 2 {
            // the unused declaration and the dead store
            return fail("no-pruning-below-limit", json!({"plan": fr.plan_some, "skipped": fr.skipped}));
        }
        Outcome::ok("analysed as usual", true)
    }
}

pub fn spaces(tier: Tier) -> Vec<Box<dyn Space>> {
    let t = tier == Tier::Thorough;
    vec![
        Box::new(LimitSpace { thorough: t }),
        Box::new(StructureSpace { sizes: if t { vec![2, 3, 10, 50, 100, 200, 300, 360, 420, 500, 600, 800] } else { vec![2, 3, 10, 50, 150, 250, 340, 400] } }),
    ]
}
