//! Shared differential check: real pipeline (mode M0) against the reference interpreter.

use serde_json::json;

use crate::ast::{self, S};
use crate::drive::{self, Ctx, End, Front, M0, M3, RunOpts};
use crate::engine::{Outcome, Violation};
use crate::refsem::{self, RefEnd};

pub struct CmpOpts {
    /// ill-scoped programs (reference finds a broken static rule) are skipped, not compared
    pub skip_illformed: bool,
}

impl Default for CmpOpts {
    fn default() -> Self {
        CmpOpts { skip_illformed: true }
    }
}

/// Runs `prog` on the real pipeline and on the reference and compares the observations.
pub fn compare(ctx: &Ctx, prog: &[S], opts: &CmpOpts) -> Outcome {
    if !ast::printable(prog) {
        return Outcome::ok("skip:unprintable", false);
    }
    let res = refsem::resolve(prog);
    if !res.rules.is_empty() && opts.skip_illformed {
        return Outcome::ok("skip:ill-formed-by-reference", false);
    }
    if res.ambiguous {
        return Outcome::ok("skip:binding-not-documented", false);
    }
    let text = ast::print(prog);
    let rf = refsem::run(&res);
    let real = drive::run_pipeline(ctx, &text, M0, RunOpts::default());
    let mk = |class: &str, extra: serde_json::Value| {
        // attribute: plain evaluator (no reclamation, no pruning)?
        let m3 = drive::run_pipeline(ctx, &text, M3, RunOpts::default());
        let v = Violation::new(
            class,
            text.clone(),
            json!({"real_M0": real.show(), "real_M3": m3.show(),
                   "reference_out": rf.out.iter().map(|t| t.show()).collect::<Vec<_>>(),
                   "reference_end": format!("{:?}", rf.end), "extra": extra}),
        );
        Outcome::bad(class.to_string(), v)
    };
    match &real.front {
        Front::Accepted => {}
        Front::Rejected(d) => {
            return mk(
                "valid-program-rejected",
                json!(d.iter().map(|x| format!("{}: {}", x.stage, x.message)).collect::<Vec<_>>()),
            );
        }
        Front::Panic(m) => return mk(&format!("front-end-panic: {m}"), json!(null)),
    }
    if let End::Panic(m) = &real.end {
        // crash of an accepted program: C06's business, but it also is not the documented end
        if matches!(rf.end, RefEnd::Unspecified(_)) {
            return Outcome::ok("skip:unspecified(real panics; see C06)", false);
        }
        return mk(&format!("panic: {m}"), json!(null));
    }
    match &rf.end {
        RefEnd::Unspecified(why) => {
            // everything printed before the unspecified point is specified
            if real.out.len() < rf.out.len() || real.out[..rf.out.len()] != rf.out[..] {
                return mk("output-differs-before-unspecified-point", json!(why));
            }
            if why.ends_with("before declaration executed") {
                // The reference stopped where a variable of the *current* activation is used
                // before its declaration has run (a hoisted function was called early). What
                // must not happen (C04): carrying on with the same-named variable of another
                // activation. The implementation's own convention, also at top level where no
                // other activation exists, is the run-time error below.
                let uninit = {
                    use naijascript::diagnostics::AsStr;
                    naijascript::runtime::RuntimeErrorKind::UninitializedVariable.as_str()
                };
                if real.out.len() != rf.out.len() || !matches!(&real.end, End::RuntimeError(m) if m == uninit) {
                    return mk("use-before-declaration-continues-with-another-binding", json!(why));
                }
                return Outcome::ok("agree:error(use before declaration)", true);
            }
            if *why == refsem::DEEP {
                let stack = refsem::err_kinds().stack;
                if !matches!(&real.end, End::RuntimeError(m) if m == stack) {
                    return mk("infinite-recursion-not-reported-as-stack-overflow", json!(why));
                }
                return Outcome::ok("agree:error(Stack overflow)", true);
            }
            Outcome::ok(format!("skip:unspecified({why})"), false)
        }
        RefEnd::Normal | RefEnd::Error(_) => {
            if real.out != rf.out {
                return mk("output-differs", json!(null));
            }
            let same_end = match (&rf.end, &real.end) {
                (RefEnd::Normal, End::Normal) => true,
                (RefEnd::Error(k), End::RuntimeError(m)) => k == m,
                _ => false,
            };
            if !same_end {
                return mk("ending-differs", json!(null));
            }
            let class = match &rf.end {
                RefEnd::Normal => "agree:normal".to_string(),
                RefEnd::Error(k) => format!("agree:error({k})"),
                RefEnd::Unspecified(_) => unreachable!(),
            };
            Outcome::ok(class, !rf.out.is_empty() || rf.end != RefEnd::Normal)
        }
    }
}
