//! C12 — string pool exclusivity and conservation.
//! E2: explicit-state search of the *entire reachable state space* of small pools, every
//! transition executed on the real `PoolSet` (through the H2 wrapper) in lock-step with a
//! shadow that only knows the contract.

use std::collections::{HashSet, VecDeque};
use std::ptr::NonNull;

use naijascript::arena::pool_verif::{self, CLASSES, Pools};
use serde_json::json;

use crate::drive::Ctx;
use crate::engine::{Outcome, Profile, PropMeta, Space, Tier, Violation};

pub fn meta(_tier: Tier) -> PropMeta {
    PropMeta {
        id: "C12",
        level: "model_checking",
        rule: "breadth-first search over alloc(size)/release(buffer) sequences on real pools built \
               with 2-3 slots in three active size classes (all other classes 1 slot); a state is the \
               pool's own (bump, live set, free-list sequence) per class plus the multiset of live \
               fallback buffers; every transition calls the real alloc/dealloc and evaluates all \
               invariants; states are deduplicated on that exact key and the search runs until no new \
               state appears (no depth bound). A case = one class triple; non-trivial = the search \
               reached exhaustion of a class, a refill after release, and a fallback buffer. \
               traces_validated_against_impl = number of distinct op paths re-executed on the real pool"
            .into(),
        assumptions: vec![
            "at most 2 live fallback buffers and 3 active classes at a time (bound)".into(),
            "release is always called with the size the buffer was allocated with (API contract)".into(),
            "the oracle never looks at the order in which free slots are reused".into(),
        ],
        explanation: String::new(),
    }
}

pub fn spaces(tier: Tier) -> Vec<Box<dyn Space>> {
    let mut triples: Vec<[usize; 3]> = vec![[0, 1, 15], [15, 16, 17], [16, 19, 3]];
    if tier == Tier::Thorough {
        triples.extend([[0, 2, 19], [14, 15, 16], [17, 18, 19], [1, 7, 8], [3, 4, 16], [0, 15, 19]]);
    }
    let mut v: Vec<Box<dyn Space>> = Vec::new();
    for profile in [Profile::Poison, Profile::Fast] {
        v.push(Box::new(PoolBfs { profile, triples: triples.clone(), slots: if tier == Tier::Thorough { 3 } else { 2 } }));
        v.push(Box::new(RealPool { profile }));
    }
    v
}

#[derive(Clone, Debug, PartialEq, Eq, Hash)]
enum Op {
    Alloc(u32),
    Release(usize),
}

struct Buf {
    ptr: usize,
    len: usize,
    size: u32,
    pat: u8,
    /// class block the buffer lies in, or None (fallback)
    class: Option<usize>,
}

struct Shadow {
    live: Vec<Buf>,
    /// released fallback buffers: must never be handed out again
    retired: Vec<Buf>,
    next_pat: u8,
}

fn fill(b: &Buf) {
    unsafe { std::ptr::write_bytes(b.ptr as *mut u8, b.pat, b.len) };
}

fn intact(b: &Buf) -> bool {
    let s = unsafe { std::slice::from_raw_parts(b.ptr as *const u8, b.len) };
    s.iter().all(|&x| x == b.pat)
}

/// Applies one op to the real pool and the shadow and checks every invariant.
fn step(pools: &Pools<'_>, sh: &mut Shadow, op: &Op) -> Result<(), (String, serde_json::Value)> {
    let before: Vec<_> = (0..CLASSES).map(|c| pools.class_state(c)).collect();
    match op {
        Op::Alloc(size) => {
            let p = pools.alloc(*size);
            let (ptr, len) = (p.cast::<u8>().as_ptr() as usize, p.len());
            if len < *size as usize {
                return Err(("alloc-too-small".into(), json!({"size": size, "len": len})));
            }
            let class = (0..CLASSES).find(|&c| {
                let s = &before[c];
                ptr >= s.base && ptr < s.base + s.slot_size as usize * s.slot_count as usize
            });
            if let Some(c) = class {
                let s = &before[c];
                if len != s.slot_size as usize {
                    return Err(("pooled-len-not-slot-size".into(), json!({"size": size, "len": len, "class": c})));
                }
                if !(ptr - s.base).is_multiple_of(s.slot_size as usize)
                    || ptr + len > s.base + s.slot_size as usize * s.slot_count as usize
                {
                    return Err(("pooled-buffer-not-a-slot".into(), json!({"size": size, "class": c})));
                }
            }
            for b in sh.live.iter().chain(sh.retired.iter()) {
                if ptr < b.ptr + b.len && b.ptr < ptr + len {
                    return Err((
                        if b.class.is_none() && sh.retired.iter().any(|r| r.ptr == b.ptr) {
                            "fallback-memory-recycled".into()
                        } else {
                            "double-hand-out".into()
                        },
                        json!({"size": size, "overlaps_size": b.size}),
                    ));
                }
            }
            let pat = sh.next_pat;
            sh.next_pat = if sh.next_pat == 0xDC { 1 } else { sh.next_pat + 1 };
            let b = Buf { ptr, len, size: *size, pat, class };
            fill(&b);
            sh.live.push(b);
        }
        Op::Release(j) => {
            let b = sh.live.remove(*j);
            unsafe { pools.dealloc(NonNull::new(b.ptr as *mut u8).unwrap(), b.size) };
            let after: Vec<_> = (0..CLASSES).map(|c| pools.class_state(c)).collect();
            for c in 0..CLASSES {
                let d = after[c].free.len() as i64 - before[c].free.len() as i64;
                let want = i64::from(b.class == Some(c));
                if d != want {
                    return Err((
                        "release-wrong-class".into(),
                        json!({"size": b.size, "from_class": b.class, "class": c, "free_delta": d}),
                    ));
                }
            }
            if b.class.is_none() {
                sh.retired.push(b);
            }
        }
    }
    // every live (and retired fallback) buffer still carries its pattern
    for b in sh.live.iter() {
        if !intact(b) {
            return Err(("live-buffer-clobbered".into(), json!({"size": b.size, "after": format!("{op:?}")})));
        }
    }
    // conservation, from the pool's own counters and against the shadow
    let live_ptrs: HashSet<usize> = sh.live.iter().map(|b| b.ptr).collect();
    let layout: Vec<(usize, usize)> =
        before.iter().map(|t| (t.base, t.slot_size as usize * t.slot_count as usize)).collect();
    for c in 0..CLASSES {
        let s = pools.class_state(c);
        if s.live + s.free.len() as u32 + (s.slot_count - s.bump) != s.slot_count {
            return Err(("conservation-broken".into(), json!({"class": c, "state": format!("{s:?}")})));
        }
        let shadow_live = sh.live.iter().filter(|b| b.class == Some(c)).count() as u32;
        if s.live != shadow_live {
            return Err((
                "live-count-disagrees".into(),
                json!({"class": c, "pool": s.live, "shadow": shadow_live}),
            ));
        }
        // free slots are distinct, below bump, and not live
        let mut seen = HashSet::new();
        for &f in &s.free {
            let addr = s.base + f as usize * s.slot_size as usize;
            if f >= s.bump || !seen.insert(f) || live_ptrs.contains(&addr) {
                return Err(("free-list-corrupt".into(), json!({"class": c, "state": format!("{s:?}")})));
            }
        }
        // ownership test: true exactly inside class blocks (the byte just before/after a
        // block may belong to a neighbouring class block)
        let total = s.slot_size as usize * s.slot_count as usize;
        for addr in [s.base, s.base + total - 1, s.base.wrapping_sub(1), s.base + total] {
            let inside_any = layout.iter().any(|t| addr >= t.0 && addr < t.0 + t.1);
            let got = pools.contains(addr as *const u8);
            if got != inside_any {
                return Err(("contains-wrong".into(), json!({"class": c, "addr_off": addr as i64 - s.base as i64, "got": got})));
            }
        }
    }
    for b in sh.live.iter().chain(sh.retired.iter()) {
        for addr in [b.ptr, b.ptr + b.len.saturating_sub(1)] {
            if pools.contains(addr as *const u8) != b.class.is_some() {
                return Err(("contains-wrong-for-buffer".into(), json!({"size": b.size, "pooled": b.class.is_some()})));
            }
        }
    }
    Ok(())
}

fn key(pools: &Pools<'_>, sh: &Shadow, active: &[usize; 3]) -> Vec<u32> {
    let mut k = Vec::new();
    for &c in active {
        let s = pools.class_state(c);
        k.push(s.bump);
        let mut live: Vec<u32> = sh
            .live
            .iter()
            .filter(|b| b.class == Some(c))
            .map(|b| ((b.ptr - s.base) / s.slot_size as usize) as u32)
            .collect();
        live.sort_unstable();
        k.push(live.len() as u32);
        k.extend(live);
        k.push(s.free.len() as u32);
        k.extend(&s.free);
    }
    // live fallback buffers by the class their size maps to (None = oversize)
    let mut fb: Vec<u32> = sh
        .live
        .iter()
        .filter(|b| b.class.is_none())
        .map(|b| pool_verif::size_class(b.size).map_or(99, |c| c))
        .collect();
    fb.sort_unstable();
    k.push(1000 + fb.len() as u32);
    k.extend(fb);
    k
}

struct PoolBfs {
    profile: Profile,
    triples: Vec<[usize; 3]>,
    slots: u32,
}

fn sizes_for(active: &[usize; 3]) -> Vec<u32> {
    let ss = pool_verif::slot_sizes();
    let mut v = Vec::new();
    for &c in active {
        let hi = ss[c];
        let lo = if c == 0 { 0 } else { ss[c - 1] + 1 };
        v.push(lo);
        if hi != lo {
            v.push(hi);
        }
    }
    v.push(257);
    v.push(300);
    v.sort_unstable();
    v.dedup();
    v
}

impl Space for PoolBfs {
    fn id(&self) -> String {
        format!("pool-bfs-{}slots-{}", self.slots, self.profile.dir())
    }
    fn size(&self) -> u64 {
        self.triples.len() as u64
    }
    fn profile(&self) -> Profile {
        self.profile
    }
    fn chunk(&self) -> u64 {
        1
    }
    fn case_timeout_ms(&self) -> u64 {
        1_800_000
    }
    fn describe(&self, i: u64) -> String {
        let t = self.triples[i as usize];
        format!(
            "full reachable state space: classes {t:?} with {} slots each, sizes {:?}, <=2 fallback buffers",
            self.slots,
            sizes_for(&t)
        )
    }
    fn run(&self, ctx: &mut Ctx, i: u64) -> Outcome {
        let active = self.triples[i as usize];
        let sizes = sizes_for(&active);
        let mut counts = [1u32; CLASSES];
        for &c in &active {
            counts[c] = self.slots;
        }
        let mut seen: HashSet<Vec<u32>> = HashSet::new();
        let mut queue: VecDeque<Vec<Op>> = VecDeque::new();
        queue.push_back(vec![]);
        let mut transitions = 0u64;
        let mut paths = 0u64;
        let (mut saw_exhaust, mut saw_refill, mut saw_fallback) = (false, false, false);
        let mut max_depth = 0;
        let mut sample = None;
        let mut first = true;
        while let Some(path) = queue.pop_front() {
            max_depth = max_depth.max(path.len());
            // enabled ops in the state reached by `path`
            let n_live;
            let n_fb;
            {
                ctx.reset();
                let pools = Pools::with_slot_counts(&ctx.aux, counts);
                let mut sh = Shadow { live: vec![], retired: vec![], next_pat: 1 };
                for op in &path {
                    let _ = step(&pools, &mut sh, op);
                }
                n_live = sh.live.len();
                n_fb = sh.live.iter().filter(|b| b.class.is_none()).count();
                if first {
                    seen.insert(key(&pools, &sh, &active));
                    first = false;
                }
            }
            let mut ops: Vec<Op> = (0..n_live).map(Op::Release).collect();
            for &s in &sizes {
                ops.push(Op::Alloc(s));
            }
            for op in ops {
                ctx.reset();
                let pools = Pools::with_slot_counts(&ctx.aux, counts);
                let mut sh = Shadow { live: vec![], retired: vec![], next_pat: 1 };
                for p in &path {
                    let _ = step(&pools, &mut sh, p);
                }
                paths += 1;
                transitions += 1;
                let free_before: u32 = active.iter().map(|&c| pools.class_state(c).free.len() as u32).sum();
                if let Err((class, detail)) = step(&pools, &mut sh, &op) {
                    let mut full = path.clone();
                    full.push(op);
                    let input = format!("classes {active:?} slots {} ops {full:?}", self.slots);
                    return Outcome {
                        nontrivial: true,
                        class: "violation".into(),
                        violations: vec![Violation::new(class, input, detail)],
                        counters: vec![("states", seen.len() as u64), ("transitions", transitions), ("traces_validated_against_impl", paths)],
                        sample: None,
                    };
                }
                if let Op::Alloc(s) = &op {
                    let b = sh.live.last().unwrap();
                    if b.class.is_none() {
                        saw_fallback = true;
                        if *s <= 256 {
                            saw_exhaust = true;
                        }
                    } else if free_before > 0
                        && active.iter().map(|&c| pools.class_state(c).free.len() as u32).sum::<u32>() < free_before
                    {
                        saw_refill = true;
                    }
                }
                // bound: at most 2 live fallback buffers
                let fb_now = sh.live.iter().filter(|b| b.class.is_none()).count();
                let _ = n_fb;
                if fb_now > 2 {
                    continue;
                }
                let k = key(&pools, &sh, &active);
                if seen.insert(k) {
                    let mut full = path.clone();
                    full.push(op);
                    if sample.is_none() && full.len() >= 5 {
                        sample = Some(json!(format!("{full:?}")));
                    }
                    queue.push_back(full);
                }
            }
        }
        Outcome {
            nontrivial: saw_exhaust && saw_refill && saw_fallback,
            class: format!("explored(max_depth={max_depth})"),
            violations: vec![],
            counters: vec![("states", seen.len() as u64), ("transitions", transitions), ("traces_validated_against_impl", paths)],
            sample,
        }
    }
}

/// The pool exactly as the runtime builds it: fill one class to exhaustion, overflow into
/// the fallback, release everything, refill.
struct RealPool {
    profile: Profile,
}

impl Space for RealPool {
    fn id(&self) -> String {
        format!("real-pool-exhaust-refill-{}", self.profile.dir())
    }
    fn size(&self) -> u64 {
        CLASSES as u64
    }
    fn profile(&self) -> Profile {
        self.profile
    }
    fn chunk(&self) -> u64 {
        1
    }
    fn case_timeout_ms(&self) -> u64 {
        600_000
    }
    fn describe(&self, i: u64) -> String {
        format!("PoolSet::new: class {i}: allocate slot_count+3 buffers, release all, allocate slot_count+3 again")
    }
    fn run(&self, ctx: &mut Ctx, i: u64) -> Outcome {
        ctx.reset();
        let pools = Pools::new(&ctx.aux);
        let c = i as usize;
        let size = pool_verif::slot_sizes()[c];
        let n = pool_verif::default_slot_counts()[c] as usize + 3;
        let mut sh = Shadow { live: vec![], retired: vec![], next_pat: 1 };
        let mut transitions = 0u64;
        let layout: Vec<(usize, usize)> = (0..CLASSES)
            .map(|k| {
                let t = pools.class_state(k);
                (t.base, t.slot_size as usize * t.slot_count as usize)
            })
            .collect();
        let mut ops: Vec<Op> = Vec::new();
        for round in 0..2 {
            for _ in 0..n {
                ops.push(Op::Alloc(size));
            }
            if round == 0 {
                // release in an order that is neither LIFO nor FIFO
                for k in (0..n).rev() {
                    ops.push(Op::Release(if k % 2 == 0 { 0 } else { k }));
                }
            }
        }
        // the full invariant sweep is O(live) per step: check cheaply per step, fully every 97 steps
        for (idx, op) in ops.iter().enumerate() {
            transitions += 1;
            let r = if idx % 97 == 0 || idx + 1 == ops.len() {
                step(&pools, &mut sh, op)
            } else {
                step_light(&pools, &layout, &mut sh, op)
            };
            if let Err((class, detail)) = r {
                return Outcome::bad(
                    "violation",
                    Violation::new(class, format!("real pool class {c} op #{idx} {op:?}"), detail),
                );
            }
        }
        let fallback = sh.live.iter().filter(|b| b.class.is_none()).count() + sh.retired.len();
        Outcome {
            nontrivial: fallback >= 3,
            class: "ok".into(),
            violations: vec![],
            counters: vec![("real_pool_steps", transitions), ("traces_validated_against_impl", 1)],
            sample: None,
        }
    }
}

/// Like `step` but with O(1) checks against the neighbours only (overlap via a hash of
/// addresses), used between the full sweeps on the 16 384-slot pools.
fn step_light(
    pools: &Pools<'_>,
    layout: &[(usize, usize)],
    sh: &mut Shadow,
    op: &Op,
) -> Result<(), (String, serde_json::Value)> {
    match op {
        Op::Alloc(size) => {
            let p = pools.alloc(*size);
            let (ptr, len) = (p.cast::<u8>().as_ptr() as usize, p.len());
            if len < *size as usize {
                return Err(("alloc-too-small".into(), json!({"size": size, "len": len})));
            }
            let class = (0..CLASSES).find(|&c| ptr >= layout[c].0 && ptr < layout[c].0 + layout[c].1);
            let pat = sh.next_pat;
            sh.next_pat = if sh.next_pat == 0xDC { 1 } else { sh.next_pat + 1 };
            let b = Buf { ptr, len, size: *size, pat, class };
            fill(&b);
            sh.live.push(b);
            Ok(())
        }
        Op::Release(j) => {
            let b = sh.live.remove(*j);
            if !intact(&b) {
                return Err(("live-buffer-clobbered".into(), json!({"size": b.size})));
            }
            unsafe { pools.dealloc(NonNull::new(b.ptr as *mut u8).unwrap(), b.size) };
            if b.class.is_none() {
                sh.retired.push(b);
            }
            Ok(())
        }
    }
}
