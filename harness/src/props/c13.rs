//! C13 — string built-ins agree with their specification on every input (E1 over inputs).

use naijascript::arena::Arena;
use naijascript::builtins::{ArrayBuiltin, StringBuiltin, find, replace};
use naijascript::runtime::Value;
use serde_json::json;

use crate::drive::Ctx;
use crate::engine::{Outcome, Profile, PropMeta, Space, Tier, Violation};
use crate::util::Strings;

pub fn meta(_tier: Tier) -> PropMeta {
    PropMeta {
        id: "C13",
        level: "exploration",
        rule: "every input tuple of each stated alphabet/length bound is enumerated and the real \
               public function is called on it; a case is one needle / pattern / subject string \
               together with all its haystacks / argument tuples; non-trivial = at least one call of \
               the case found a match, replaced something, split into >1 piece or selected a \
               non-empty proper substring; distinct by case text"
            .into(),
        assumptions: vec![
            "oracles: naive window search; Rust std str::replace / split / trim / to_uppercase / \
             chars().count(); for to_lowercase either std's context-aware mapping (final sigma) or \
             the per-character full mapping is accepted"
                .into(),
            "find returns a byte offset (docs say 'index'; byte vs character offsets differ only \
             for non-ASCII haystacks and the byte offset is what is compared)"
                .into(),
            "slice with a NaN bound: only crash-freedom and UTF-8 validity are required".into(),
            "to_number: value compared only for unambiguous decimal spellings and clear garbage".into(),
        ],
        explanation: String::new(),
    }
}

pub fn spaces(tier: Tier) -> Vec<Box<dyn Space>> {
    let thorough = tier == Tier::Thorough;
    let mut v: Vec<Box<dyn Space>> = Vec::new();
    for profile in [Profile::Poison, Profile::Fast] {
        // the poison build has std's unsafe-precondition checks (get_unchecked etc.)
        v.push(Box::new(FindSmall {
            profile,
            needles: Strings::new(&["a", "b"], 6),
            hays: Strings::new(&["a", "b"], if thorough { 13 } else { 11 }),
            tag: "ab",
        }));
        v.push(Box::new(FindSmall {
            profile,
            needles: Strings::new(&["a", "b", "é"], 3),
            hays: Strings::new(&["a", "b", "é"], if thorough { 7 } else { 6 }),
            tag: "abé",
        }));
        v.push(Box::new(FindLong { profile, len: 17, deep: thorough }));
        if thorough {
            v.push(Box::new(FindLong { profile, len: 18, deep: true }));
            v.push(Box::new(FindLong { profile, len: 19, deep: false }));
        } else if profile == Profile::Poison {
            v.push(Box::new(FindLong { profile, len: 18, deep: false }));
        }
        v.push(Box::new(FindPeriodic { profile, lens: vec![16, 17, 32, 33, 64] }));
        v.push(Box::new(ReplaceSp {
            profile,
            hays: Strings::new(&["a", "b"], if thorough { 10 } else { 8 }),
            froms: Strings::new(&["a", "b"], 3),
            tag: "ab",
        }));
        v.push(Box::new(ReplaceSp {
            profile,
            hays: Strings::new(&["a", "é"], if thorough { 7 } else { 5 }),
            froms: Strings::new(&["a", "é"], 2),
            tag: "aé",
        }));
        v.push(Box::new(ReplaceLong { profile }));
        v.push(Box::new(SplitJoin {
            profile,
            hays: Strings::new(&["a", "b", "é"], if thorough { 9 } else { 7 }),
            seps: Strings::new(&["a", "b", "é"], 2),
        }));
        v.push(Box::new(SliceSp { profile, subjects: Strings::new(&["a", "é", "😆"], 4) }));
        v.push(Box::new(CharTable { profile, max_len: if thorough { 4 } else { 3 } }));
    }
    v
}

fn naive_find(h: &[u8], n: &[u8]) -> Option<usize> {
    if n.is_empty() {
        return Some(0);
    }
    if n.len() > h.len() {
        return None;
    }
    (0..=h.len() - n.len()).find(|&i| &h[i..i + n.len()] == n)
}

fn check_find(h: &str, n: &str, bad: &mut Vec<Violation>) -> bool {
    let got = find(h, n);
    let want = naive_find(h.as_bytes(), n.as_bytes());
    if got != want {
        bad.push(Violation::new(
            "find-wrong-result",
            json!(["find", h, n]).to_string(),
            json!({"got": got, "want": want}),
        ));
    }
    // the script-visible wrapper
    let f = StringBuiltin::find(h, n);
    let wf = want.map_or(-1.0, |v| v as f64);
    if f != wf {
        bad.push(Violation::new(
            "find-wrapper-wrong-result",
            json!(["find", h, n]).to_string(),
            json!({"got": f, "want": wf}),
        ));
    }
    want.is_some() && !n.is_empty()
}

// ---------------------------------------------------------------------------------------

struct FindSmall {
    profile: Profile,
    needles: Strings,
    hays: Strings,
    tag: &'static str,
}

impl Space for FindSmall {
    fn id(&self) -> String {
        format!("find-small-{}-{}", self.tag, self.profile.dir())
    }
    fn size(&self) -> u64 {
        self.needles.count()
    }
    fn profile(&self) -> Profile {
        self.profile
    }
    fn chunk(&self) -> u64 {
        1
    }
    fn case_timeout_ms(&self) -> u64 {
        120_000
    }
    fn describe(&self, i: u64) -> String {
        format!(
            "find(h, {:?}) for every h over {{{}}} with |h| <= {}",
            self.needles.nth(i),
            self.tag,
            self.hays.max_len
        )
    }
    fn run(&self, _ctx: &mut Ctx, i: u64) -> Outcome {
        let n = self.needles.nth(i);
        let mut bad = Vec::new();
        let mut hits = 0u64;
        let total = self.hays.count();
        for j in 0..total {
            let h = self.hays.nth(j);
            if check_find(&h, &n, &mut bad) {
                hits += 1;
            }
            if bad.len() > 3 {
                break;
            }
        }
        Outcome {
            nontrivial: hits > 0,
            class: if bad.is_empty() { "ok".into() } else { "violation".into() },
            violations: bad,
            counters: vec![("calls", total), ("matches", hits)],
            sample: None,
        }
    }
}

// ---------------------------------------------------------------------------------------

/// Every needle of `len` bytes over {a,b} (the > 16 byte two-way path) against haystacks
/// that contain it at small offsets, and near misses.
struct FindLong {
    profile: Profile,
    len: u32,
    deep: bool,
}

impl FindLong {
    fn needle(&self, i: u64) -> String {
        (0..self.len).map(|k| if (i >> (self.len - 1 - k)) & 1 == 1 { 'b' } else { 'a' }).collect()
    }
}

impl Space for FindLong {
    fn id(&self) -> String {
        format!("find-long-{}-{}", self.len, self.profile.dir())
    }
    fn size(&self) -> u64 {
        1 << self.len
    }
    fn profile(&self) -> Profile {
        self.profile
    }
    fn chunk(&self) -> u64 {
        512
    }
    fn describe(&self, i: u64) -> String {
        format!("find(h, {:?}) for h = p+n+s, p in {{a,b}}^<=3, s in {{a,b}}^<=1, and single-byte mutations", self.needle(i))
    }
    fn run(&self, _ctx: &mut Ctx, i: u64) -> Outcome {
        let n = self.needle(i);
        let prefixes = Strings::new(&["a", "b"], if self.deep { 3 } else { 2 });
        let suffixes = Strings::new(&["a", "b"], 1);
        let mut bad = Vec::new();
        let mut calls = 0u64;
        let mut hits = 0u64;
        for pi in 0..prefixes.count() {
            let p = prefixes.nth(pi);
            for si in 0..suffixes.count() {
                let s = suffixes.nth(si);
                let h = format!("{p}{n}{s}");
                calls += 1;
                if check_find(&h, &n, &mut bad) {
                    hits += 1;
                }
                // single-byte mutations (flip a<->b) of the haystack: near misses and shifted hits
                if self.deep || pi <= 2 {
                    let hb = h.as_bytes();
                    for k in 0..hb.len() {
                        let mut m = hb.to_vec();
                        m[k] = if m[k] == b'a' { b'b' } else { b'a' };
                        let m = String::from_utf8(m).unwrap();
                        calls += 1;
                        if check_find(&m, &n, &mut bad) {
                            hits += 1;
                        }
                    }
                }
                if bad.len() > 3 {
                    break;
                }
            }
        }
        // needle-free and too-short haystacks
        for h in [&n[1..], &n[..n.len() - 1], ""] {
            calls += 1;
            check_find(h, &n, &mut bad);
        }
        Outcome {
            nontrivial: hits > 0,
            class: if bad.is_empty() { "ok".into() } else { "violation".into() },
            violations: bad,
            counters: vec![("calls", calls), ("matches", hits)],
            sample: None,
        }
    }
}

// ---------------------------------------------------------------------------------------

/// Periodic needles with a defect at every position.
struct FindPeriodic {
    profile: Profile,
    lens: Vec<usize>,
}

impl FindPeriodic {
    // case index → (len, period, pattern bits, defect position or none)
    fn decode(&self, mut i: u64) -> (usize, usize, u64, Option<usize>) {
        for &l in &self.lens {
            for p in 1..=8usize {
                let per = (1u64 << p) * (l as u64 + 1);
                if i < per {
                    let bits = i / (l as u64 + 1);
                    let d = (i % (l as u64 + 1)) as usize;
                    return (l, p, bits, if d == l { None } else { Some(d) });
                }
                i -= per;
            }
        }
        unreachable!()
    }
    fn build(l: usize, p: usize, bits: u64, defect: Option<usize>) -> (String, String) {
        let pat: Vec<u8> = (0..p).map(|k| if (bits >> k) & 1 == 1 { b'b' } else { b'a' }).collect();
        let mut n: Vec<u8> = (0..l).map(|k| pat[k % p]).collect();
        if let Some(d) = defect {
            n[d] = b'c';
        }
        let bg: Vec<u8> = (0..l + 2 * p + 3).map(|k| pat[k % p]).collect();
        (String::from_utf8(n).unwrap(), String::from_utf8(bg).unwrap())
    }
}

impl Space for FindPeriodic {
    fn id(&self) -> String {
        format!("find-periodic-{}", self.profile.dir())
    }
    fn size(&self) -> u64 {
        self.lens.iter().map(|&l| (1..=8u32).map(|p| (1u64 << p) * (l as u64 + 1)).sum::<u64>()).sum()
    }
    fn profile(&self) -> Profile {
        self.profile
    }
    fn chunk(&self) -> u64 {
        256
    }
    fn describe(&self, i: u64) -> String {
        let (l, p, bits, d) = self.decode(i);
        let (n, _) = Self::build(l, p, bits, d);
        format!("periodic needle {n:?} (len {l}, period {p}, defect {d:?}) in periodic backgrounds")
    }
    fn run(&self, _ctx: &mut Ctx, i: u64) -> Outcome {
        let (l, p, bits, d) = self.decode(i);
        let (n, bg) = Self::build(l, p, bits, d);
        let mut bad = Vec::new();
        let mut hits = 0;
        let mut calls = 0;
        // the background alone; background + needle + background at each cut of the background
        let mut hays = vec![bg.clone(), format!("{bg}{n}"), format!("{n}{bg}")];
        for cut in 0..=p.min(4) {
            hays.push(format!("{}{}{}", &bg[..cut], n, &bg[cut..]));
            hays.push(format!("{}{}{}", &bg[..bg.len() - cut], n, &bg[..cut]));
        }
        // needle with its first / last byte dropped, embedded
        hays.push(format!("{bg}{}{bg}", &n[1..]));
        hays.push(format!("{bg}{}{bg}", &n[..n.len() - 1]));
        for h in &hays {
            calls += 1;
            if check_find(h, &n, &mut bad) {
                hits += 1;
            }
        }
        Outcome {
            nontrivial: hits > 0,
            class: if bad.is_empty() { "ok".into() } else { "violation".into() },
            violations: bad,
            counters: vec![("calls", calls), ("matches", hits)],
            sample: None,
        }
    }
}

// ---------------------------------------------------------------------------------------

fn check_replace(arena: &Arena, h: &str, from: &str, to: &str, bad: &mut Vec<Violation>) -> bool {
    let got = replace(arena, h, from, to);
    let gb = got.as_bytes().to_vec();
    let want = h.replace(from, to);
    if std::str::from_utf8(&gb).is_err() {
        bad.push(Violation::new(
            "replace-invalid-utf8",
            json!(["replace", h, from, to]).to_string(),
            json!({"got_bytes": gb}),
        ));
    } else if gb != want.as_bytes() {
        bad.push(Violation::new(
            "replace-wrong-result",
            json!(["replace", h, from, to]).to_string(),
            json!({"got": String::from_utf8_lossy(&gb), "want": want}),
        ));
    }
    let w = StringBuiltin::replace(h, from, to, arena);
    if w.as_bytes() != want.as_bytes() {
        bad.push(Violation::new(
            "replace-wrapper-wrong-result",
            json!(["replace", h, from, to]).to_string(),
            json!({"got": String::from_utf8_lossy(w.as_bytes()), "want": want}),
        ));
    }
    want != h
}

struct ReplaceSp {
    profile: Profile,
    hays: Strings,
    froms: Strings,
    tag: &'static str,
}

impl Space for ReplaceSp {
    fn id(&self) -> String {
        format!("replace-{}-{}", self.tag, self.profile.dir())
    }
    fn size(&self) -> u64 {
        self.hays.count()
    }
    fn profile(&self) -> Profile {
        self.profile
    }
    fn chunk(&self) -> u64 {
        64
    }
    fn describe(&self, i: u64) -> String {
        format!(
            "replace({:?}, from, to) for every from over {{{}}}^<={} and to in {{\"\", a, ba, from, from+from}}",
            self.hays.nth(i),
            self.tag,
            self.froms.max_len
        )
    }
    fn run(&self, ctx: &mut Ctx, i: u64) -> Outcome {
        let h = self.hays.nth(i);
        let mut bad = Vec::new();
        let mut changed = 0;
        let mut calls = 0;
        for fi in 0..self.froms.count() {
            let from = self.froms.nth(fi);
            let tos = ["".to_string(), "a".into(), "ba".into(), from.clone(), format!("{from}{from}")];
            for to in &tos {
                ctx.reset();
                calls += 1;
                if check_replace(&ctx.aux, &h, &from, to, &mut bad) {
                    changed += 1;
                }
            }
            if bad.len() > 3 {
                break;
            }
        }
        Outcome {
            nontrivial: changed > 0,
            class: if bad.is_empty() { "ok".into() } else { "violation".into() },
            violations: bad,
            counters: vec![("calls", calls), ("matches", changed)],
            sample: None,
        }
    }
}

/// `replace` with patterns longer than 16 bytes (goes through the long-needle search).
struct ReplaceLong {
    profile: Profile,
}

impl Space for ReplaceLong {
    fn id(&self) -> String {
        format!("replace-long-{}", self.profile.dir())
    }
    fn size(&self) -> u64 {
        1 << 12
    }
    fn profile(&self) -> Profile {
        self.profile
    }
    fn chunk(&self) -> u64 {
        64
    }
    fn describe(&self, i: u64) -> String {
        let from = self.from(i);
        format!("replace(x+from+y+from+z, from={from:?}, to) for x,y,z in {{\"\",a,ab}} and to in {{\"\",Q,from}}")
    }
    fn run(&self, ctx: &mut Ctx, i: u64) -> Outcome {
        let from = self.from(i);
        let mut bad = Vec::new();
        let mut calls = 0;
        let mut changed = 0;
        let parts = ["", "a", "ab"];
        for x in parts {
            for y in parts {
                for z in parts {
                    let h = format!("{x}{from}{y}{from}{z}");
                    for to in ["", "Q", from.as_str()] {
                        ctx.reset();
                        calls += 1;
                        if check_replace(&ctx.aux, &h, &from, to, &mut bad) {
                            changed += 1;
                        }
                    }
                }
            }
            if bad.len() > 3 {
                break;
            }
        }
        Outcome {
            nontrivial: changed > 0,
            class: if bad.is_empty() { "ok".into() } else { "violation".into() },
            violations: bad,
            counters: vec![("calls", calls), ("matches", changed)],
            sample: None,
        }
    }
}

impl ReplaceLong {
    // 17..20-byte patterns: 12 free bits spread over a 17+ byte pattern
    fn from(&self, i: u64) -> String {
        let len = 17 + (i % 4) as usize;
        let bits = i / 4;
        (0..len).map(|k| if (bits >> (k % 10)) & 1 == 1 && k % 3 != 2 { 'b' } else { 'a' }).collect()
    }
}

// ---------------------------------------------------------------------------------------

struct SplitJoin {
    profile: Profile,
    hays: Strings,
    seps: Strings,
}

impl Space for SplitJoin {
    fn id(&self) -> String {
        format!("split-join-{}", self.profile.dir())
    }
    fn size(&self) -> u64 {
        self.hays.count()
    }
    fn profile(&self) -> Profile {
        self.profile
    }
    fn chunk(&self) -> u64 {
        128
    }
    fn describe(&self, i: u64) -> String {
        format!("split({:?}, sep) then join(sep) for every sep over {{a,b,é}}^<=2", self.hays.nth(i))
    }
    fn run(&self, ctx: &mut Ctx, i: u64) -> Outcome {
        let h = self.hays.nth(i);
        let mut bad = Vec::new();
        let mut multi = 0;
        let mut calls = 0;
        for si in 0..self.seps.count() {
            let sep = self.seps.nth(si);
            ctx.reset();
            let arena = &ctx.aux;
            calls += 1;
            let pieces: Vec<Vec<u8>> =
                StringBuiltin::split(&h, &sep, arena).map(|p| p.as_bytes().to_vec()).collect();
            let want: Vec<&str> = h.split(sep.as_str()).collect();
            let input = json!(["split", h, sep]).to_string();
            if pieces.iter().any(|p| std::str::from_utf8(p).is_err()) {
                bad.push(Violation::new("split-invalid-utf8", input.clone(), json!({})));
                continue;
            }
            let got: Vec<&str> = pieces.iter().map(|p| std::str::from_utf8(p).unwrap()).collect();
            if got != want {
                bad.push(Violation::new(
                    "split-wrong-result",
                    input.clone(),
                    json!({"got": got, "want": want}),
                ));
            }
            if got.len() > 1 {
                multi += 1;
            }
            // join through the array built-in, as a script would
            let mut arr = Vec::new_in(arena);
            for p in StringBuiltin::split(&h, &sep, arena) {
                arr.push(Value::Str(naijascript::arena::ArenaCow::Owned(p)));
            }
            let joined = ArrayBuiltin::join(&arr, &sep, arena);
            if joined.as_bytes() != h.as_bytes() {
                bad.push(Violation::new(
                    "split-join-not-identity",
                    input,
                    json!({"got": String::from_utf8_lossy(joined.as_bytes()), "want": h}),
                ));
            }
        }
        Outcome {
            nontrivial: multi > 0,
            class: if bad.is_empty() { "ok".into() } else { "violation".into() },
            violations: bad,
            counters: vec![("calls", calls), ("matches", multi)],
            sample: None,
        }
    }
}

// ---------------------------------------------------------------------------------------

struct SliceSp {
    profile: Profile,
    subjects: Strings,
}

fn slice_bounds(len: usize) -> Vec<f64> {
    let l = len as f64;
    let mut v = vec![
        f64::NAN,
        f64::INFINITY,
        f64::NEG_INFINITY,
        1e300,
        -1e300,
        9.3e18,
        -9.3e18,
        0.5,
        -0.5,
        1.9,
        -0.1,
        -0.0,
    ];
    let mut k = -l - 2.0;
    while k <= l + 2.0 {
        v.push(k);
        k += 1.0;
    }
    v
}

/// The specification: floor both, negative counts from the end, clamp, empty if start >= end.
fn ref_slice(s: &str, a: f64, b: f64) -> Option<String> {
    if a.is_nan() || b.is_nan() {
        return None;
    }
    let chars: Vec<char> = s.chars().collect();
    let len = chars.len() as f64;
    let norm = |x: f64| {
        let f = x.floor();
        let v = if f < 0.0 { f + len } else { f };
        v.clamp(0.0, len) as usize
    };
    let (st, en) = (norm(a), norm(b));
    Some(if st >= en { String::new() } else { chars[st..en].iter().collect() })
}

impl Space for SliceSp {
    fn id(&self) -> String {
        format!("slice-{}", self.profile.dir())
    }
    fn size(&self) -> u64 {
        self.subjects.count()
    }
    fn profile(&self) -> Profile {
        self.profile
    }
    fn chunk(&self) -> u64 {
        8
    }
    fn describe(&self, i: u64) -> String {
        format!("slice({:?}, i, j) for i, j in NaN, ±inf, ±1e300, ±9.3e18, -len-2..len+2, ±0.5, 1.9, -0.1, -0.0", self.subjects.nth(i))
    }
    fn run(&self, ctx: &mut Ctx, i: u64) -> Outcome {
        let s = self.subjects.nth(i);
        let bounds = slice_bounds(s.chars().count());
        let mut bad = Vec::new();
        let mut calls = 0;
        let mut proper = 0;
        for &a in &bounds {
            for &b in &bounds {
                ctx.reset();
                calls += 1;
                let got = StringBuiltin::slice(&s, a, b, &ctx.aux);
                let gb = got.as_bytes();
                let input = json!(["slice", s, format!("{a}"), format!("{b}")]).to_string();
                let Ok(gs) = std::str::from_utf8(gb) else {
                    bad.push(Violation::new("slice-invalid-utf8", input, json!({"got_bytes": gb})));
                    continue;
                };
                if let Some(want) = ref_slice(&s, a, b) {
                    if gs != want {
                        bad.push(Violation::new(
                            "slice-wrong-result",
                            input,
                            json!({"got": gs, "want": want}),
                        ));
                    } else if !want.is_empty() && want.len() < s.len() {
                        proper += 1;
                    }
                }
            }
            if bad.len() > 3 {
                break;
            }
        }
        Outcome {
            nontrivial: proper > 0,
            class: if bad.is_empty() { "ok".into() } else { "violation".into() },
            violations: bad,
            counters: vec![("calls", calls), ("matches", proper)],
            sample: None,
        }
    }
}

// ---------------------------------------------------------------------------------------

const CHARS: &[&str] = &[
    "a", "Z", " ", "\t", "\n", "ß", "İ", "ǆ", "Σ", "ς", "\u{a0}", "\u{2028}", "\u{301}", "1", ".",
    "-", "e", "+", "é", "😆", "ﬁ",
];

struct CharTable {
    profile: Profile,
    max_len: u32,
}

fn unambiguous_decimal(s: &str) -> bool {
    // [+-]? digits [. digits*]? ([eE][+-]?digits)?   or   [+-]? . digits …
    let b = s.as_bytes();
    let mut i = 0;
    if i < b.len() && (b[i] == b'+' || b[i] == b'-') {
        i += 1;
    }
    let d0 = i;
    while i < b.len() && b[i].is_ascii_digit() {
        i += 1;
    }
    let mut digits = i - d0;
    if i < b.len() && b[i] == b'.' {
        i += 1;
        let f0 = i;
        while i < b.len() && b[i].is_ascii_digit() {
            i += 1;
        }
        digits += i - f0;
    }
    if digits == 0 {
        return false;
    }
    if i < b.len() && (b[i] == b'e' || b[i] == b'E') {
        i += 1;
        if i < b.len() && (b[i] == b'+' || b[i] == b'-') {
            i += 1;
        }
        let e0 = i;
        while i < b.len() && b[i].is_ascii_digit() {
            i += 1;
        }
        if i == e0 {
            return false;
        }
    }
    i == b.len()
}

fn clear_garbage(s: &str) -> bool {
    // no digit at all and not one of the IEEE special spellings
    !s.chars().any(|c| c.is_ascii_digit())
        && !matches!(
            s.trim_start_matches(['+', '-']).to_ascii_lowercase().as_str(),
            "inf" | "infinity" | "nan"
        )
}

impl Space for CharTable {
    fn id(&self) -> String {
        format!("char-table-{}", self.profile.dir())
    }
    fn size(&self) -> u64 {
        Strings::new(CHARS, self.max_len).count()
    }
    fn profile(&self) -> Profile {
        self.profile
    }
    fn chunk(&self) -> u64 {
        512
    }
    fn describe(&self, i: u64) -> String {
        format!("len/trim/to_uppercase/to_lowercase/to_number of {:?}", Strings::new(CHARS, self.max_len).nth(i))
    }
    fn run(&self, ctx: &mut Ctx, i: u64) -> Outcome {
        let s = Strings::new(CHARS, self.max_len).nth(i);
        ctx.reset();
        let arena = &ctx.aux;
        let mut bad = Vec::new();
        let input = |f: &str| json!([f, s]).to_string();
        let l = StringBuiltin::len(&s);
        if l != s.chars().count() as f64 {
            bad.push(Violation::new("len-wrong-result", input("len"), json!({"got": l})));
        }
        let utf8 = |name: &'static str, bytes: &[u8], wants: &[String], bad: &mut Vec<Violation>| {
            match std::str::from_utf8(bytes) {
                Err(_) => bad.push(Violation::new(format!("{name}-invalid-utf8"), input(name), json!({}))),
                Ok(g) => {
                    if !wants.iter().any(|w| w == g) {
                        bad.push(Violation::new(
                            format!("{name}-wrong-result"),
                            input(name),
                            json!({"got": g, "want": wants}),
                        ));
                    }
                }
            }
        };
        let t = StringBuiltin::trim(&s, arena);
        utf8("trim", t.as_bytes(), &[s.trim().to_string()], &mut bad);
        let u = StringBuiltin::to_uppercase(&s, arena);
        let cw_upper: String = s.chars().flat_map(char::to_uppercase).collect();
        utf8("to_uppercase", u.as_bytes(), &[s.to_uppercase(), cw_upper], &mut bad);
        let lo = StringBuiltin::to_lowercase(&s, arena);
        // the Unicode lowercase mapping of a *string* is context sensitive (Final_Sigma): the
        // character-by-character mapping is not an accepted answer
        utf8("to_lowercase", lo.as_bytes(), &[s.to_lowercase()], &mut bad);
        let n = StringBuiltin::to_number(&s);
        if unambiguous_decimal(&s) {
            let want: f64 = s.parse().unwrap();
            if n.to_bits() != want.to_bits() {
                bad.push(Violation::new("to_number-wrong-result", input("to_number"), json!({"got": n, "want": want})));
            }
        } else if clear_garbage(&s) && !n.is_nan() {
            bad.push(Violation::new("to_number-garbage-not-nan", input("to_number"), json!({"got": n})));
        }
        let nontrivial = s.trim() != s || s.to_uppercase() != s || s.to_lowercase() != s || !n.is_nan();
        Outcome {
            nontrivial,
            class: if bad.is_empty() { "ok".into() } else { "violation".into() },
            violations: bad,
            counters: vec![("calls", 5)],
            sample: None,
        }
    }
}
