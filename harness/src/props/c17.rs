//! C17 — read_line delivers successive input lines, whatever the chunking.
//! E3 (environment answers): the worker owns fd 0; a feeder hands the kernel exactly the
//! scripted chunks (next chunk only when FIONREAD says the previous one is consumed), so
//! every `read` the code issues returns exactly the next scripted chunk (or a prefix of it).

use std::io::{BufRead, Write};
use std::os::fd::FromRawFd;
use std::sync::Arc;
use std::sync::atomic::{AtomicBool, Ordering};
use std::time::Duration;

use naijascript::arena::ArenaCow;
use naijascript::runtime::Value;
use naijascript::sys::Stdin;
use serde_json::json;

use crate::cli::Build;
use crate::drive::Ctx;
use crate::engine::{Outcome, Profile, PropMeta, Space, Tier, Violation};
use crate::util::Strings;

pub fn meta(_tier: Tier) -> PropMeta {
    PropMeta {
        id: "C17",
        level: "exploration",
        rule: "texts: every string of up to N characters (quick 5, thorough 6) over {x, LF, é} — with and without \
               final newline, empty lines, multi-byte characters — and long lines of 8191, 8192, 8193, 16384, \
               16385 and 70000 bytes followed by a short line; chunkings: for the short texts every composition \
               of the byte string (2^(n-1) ways, so multi-byte characters and newlines straddle every boundary); \
               for the long texts all-at-once, 4096-byte pieces and every chunking with <= 2 extra cut points \
               around each newline, around offsets 8192 and 16384 and inside a multi-byte character. After the \
               last chunk the write end is closed and the real read_line is called (lines + 2) times: call k \
               must return line k without terminator, then empty strings; never an error or a crash. A slice of \
               the same (text, chunking) pairs is fed to the real naija running shout(read_line(\"\")) with the \
               same paced feeder. A case = one text with all its chunkings; non-trivial = text has >= 2 lines or \
               a line longer than the 8 KiB buffer; distinct by text"
            .into(),
        assumptions: vec![
            "chunks are <= 4096 bytes (PIPE_BUF) so each becomes visible atomically; a read may still return only a prefix of a chunk if the caller asks for fewer bytes (faithful stream semantics)".into(),
            "line terminator = LF (the alphabet has no CR)".into(),
        ],
        explanation: String::new(),
    }
}

fn pending(fd: i32) -> i32 {
    let mut n: libc::c_int = 0;
    unsafe { libc::ioctl(fd, libc::FIONREAD, &mut n) };
    n
}

fn expected_lines(text: &[u8]) -> Vec<Vec<u8>> {
    // a line that is not valid UTF-8 comes back with every maximal invalid sequence replaced by
    // U+FFFD (the standard lossy conversion); for valid text this is the identity
    let mut v: Vec<Vec<u8>> = text.split(|&b| b == b'\n').map(|l| String::from_utf8_lossy(l).as_bytes().to_vec()).collect();
    if v.last().is_some_and(Vec::is_empty) {
        v.pop();
    }
    v
}

/// Runs the real `read_line` `calls` times against scripted chunks. `prefill`: write
/// everything before the first call (a file / full pipe).
fn run_case(ctx: &Ctx, chunks: &[&[u8]], prefill: bool, calls: usize) -> Vec<Result<Vec<u8>, String>> {
    let mut fds = [0i32; 2];
    unsafe {
        libc::pipe(fds.as_mut_ptr());
        libc::fcntl(fds[1], libc::F_SETPIPE_SZ, 1 << 20);
        libc::dup2(fds[0], 0);
        libc::close(fds[0]);
    }
    let wfd = fds[1];
    let stop = Arc::new(AtomicBool::new(false));
    let owned: Vec<Vec<u8>> = chunks.iter().map(|c| c.to_vec()).collect();
    let mut feeder = None;
    if prefill {
        let mut w = unsafe { std::fs::File::from_raw_fd(wfd) };
        for c in &owned {
            w.write_all(c).unwrap();
        }
        drop(w);
    } else {
        let stop2 = Arc::clone(&stop);
        feeder = Some(std::thread::spawn(move || {
            let mut w = unsafe { std::fs::File::from_raw_fd(wfd) };
            for c in owned {
                while pending(wfd) != 0 {
                    if stop2.load(Ordering::SeqCst) {
                        return;
                    }
                    std::thread::yield_now();
                }
                if w.write_all(&c).is_err() {
                    return;
                }
            }
            while pending(wfd) != 0 && !stop2.load(Ordering::SeqCst) {
                std::thread::yield_now();
            }
            drop(w);
        }));
    }
    ctx.reset();
    let prompt = Value::Str(ArenaCow::Borrowed(""));
    let mut out = Vec::new();
    for _ in 0..calls {
        let r = std::panic::catch_unwind(std::panic::AssertUnwindSafe(|| {
            <naijascript::sys::stdin as Stdin>::read_line(&prompt, &ctx.aux)
                .map(|s| s.as_bytes().to_vec())
                .map_err(|e| e.to_string())
        }));
        out.push(match r {
            Ok(v) => v,
            Err(_) => Err(format!("PANIC {}", crate::drive::take_panic())),
        });
    }
    stop.store(true, Ordering::SeqCst);
    if let Some(f) = feeder {
        let _ = f.join();
    }
    // drain whatever the implementation (or std's shared stdin buffer) left behind, so that
    // the next case starts clean
    {
        let mut l = std::io::stdin().lock();
        loop {
            let n = match l.fill_buf() {
                Ok(b) => b.len(),
                Err(_) => 0,
            };
            if n == 0 {
                break;
            }
            l.consume(n);
        }
    }
    out
}

fn judge(text: &[u8], got: &[Result<Vec<u8>, String>]) -> Option<String> {
    let want = expected_lines(text);
    for (k, g) in got.iter().enumerate() {
        let w: &[u8] = want.get(k).map_or(&[], Vec::as_slice);
        match g {
            Err(e) => return Some(format!("call {k} failed: {e}")),
            Ok(b) if b.as_slice() != w => {
                let show = |x: &[u8]| {
                    let s = String::from_utf8_lossy(x);
                    if s.len() > 40 { format!("{}…({} bytes)", s.chars().take(20).collect::<String>(), x.len()) } else { format!("{s:?}") }
                };
                return Some(format!("call {k} returned {} but line {k} is {}", show(b), show(w)));
            }
            Ok(_) => {}
        }
    }
    None
}

fn compose<'a>(text: &'a [u8], cuts: &[usize]) -> Vec<&'a [u8]> {
    // cuts: sorted positions strictly inside the text; pieces longer than 4096 are split further
    let mut v = Vec::new();
    let mut prev = 0;
    for &c in cuts.iter().chain(std::iter::once(&text.len())) {
        if c <= prev || c > text.len() {
            continue;
        }
        let mut p = prev;
        while c - p > 4096 {
            v.push(&text[p..p + 4096]);
            p += 4096;
        }
        v.push(&text[p..c]);
        prev = c;
    }
    v
}

struct ShortTexts {
    texts: Strings,
}

impl Space for ShortTexts {
    fn id(&self) -> String {
        format!("short-texts-le{}-all-compositions", self.texts.max_len)
    }
    fn size(&self) -> u64 {
        self.texts.count()
    }
    fn profile(&self) -> Profile {
        Profile::Poison
    }
    fn chunk(&self) -> u64 {
        8
    }
    fn case_timeout_ms(&self) -> u64 {
        120_000
    }
    fn describe(&self, i: u64) -> String {
        format!("{:?} in every composition of its bytes", self.texts.nth(i))
    }
    fn run(&self, ctx: &mut Ctx, i: u64) -> Outcome {
        let text = self.texts.nth(i).into_bytes();
        let lines = expected_lines(&text).len();
        let n = text.len();
        let mut execs = 0u64;
        let mut outcomes = std::collections::BTreeSet::new();
        let masks: u64 = if n <= 1 { 1 } else { 1 << (n - 1) };
        for mask in 0..masks {
            let cuts: Vec<usize> = (1..n).filter(|k| (mask >> (k - 1)) & 1 == 1).collect();
            let chunks = compose(&text, &cuts);
            for prefill in [false, true] {
                if prefill && mask != 0 {
                    continue; // pre-filled is one environment: everything visible at once
                }
                let got = run_case(ctx, &chunks, prefill, lines + 2);
                execs += 1;
                outcomes.insert(format!("{got:?}"));
                if let Some(why) = judge(&text, &got) {
                    let v = Violation::new(
                        "read_line-wrong-line",
                        json!({"text": String::from_utf8_lossy(&text), "cuts": cuts, "prefill": prefill}).to_string(),
                        json!({"why": why}),
                    );
                    return Outcome { nontrivial: true, class: "violation".into(), violations: vec![v], counters: vec![("executions", execs)], sample: None };
                }
            }
        }
        Outcome {
            nontrivial: lines >= 2,
            class: "ok".into(),
            violations: vec![],
            counters: vec![("executions", execs), ("distinct_outcomes_per_text_sum", outcomes.len() as u64)],
            sample: None,
        }
    }
}

/// Lines that are not valid UTF-8 (lone continuation / start bytes, a truncated sequence), at
/// the start, in the middle and at the end of a line and of the input, in every composition.
struct ByteTexts {
    max_len: u32,
}

const BYTE_ATOMS: &[&[u8]] = &[b"a", b"\n", &[0xE9], &[0xFF], &[0xE2, 0x82], "\u{20ac}".as_bytes()];

impl ByteTexts {
    fn count(&self) -> u64 {
        (1..=self.max_len).map(|l| (BYTE_ATOMS.len() as u64).pow(l)).sum()
    }
    fn nth(&self, mut i: u64) -> Vec<u8> {
        let k = BYTE_ATOMS.len() as u64;
        let mut len = 1;
        while i >= k.pow(len) {
            i -= k.pow(len);
            len += 1;
        }
        let mut t = Vec::new();
        for _ in 0..len {
            t.extend_from_slice(BYTE_ATOMS[(i % k) as usize]);
            i /= k;
        }
        t
    }
}

impl Space for ByteTexts {
    fn id(&self) -> String {
        format!("byte-texts-le{}-all-compositions", self.max_len)
    }
    fn size(&self) -> u64 {
        self.count()
    }
    fn profile(&self) -> Profile {
        Profile::Poison
    }
    fn chunk(&self) -> u64 {
        8
    }
    fn case_timeout_ms(&self) -> u64 {
        120_000
    }
    fn describe(&self, i: u64) -> String {
        format!("bytes {:02x?} in every composition", self.nth(i))
    }
    fn run(&self, ctx: &mut Ctx, i: u64) -> Outcome {
        let text = self.nth(i);
        let lines = expected_lines(&text).len();
        let n = text.len();
        let mut execs = 0u64;
        let masks: u64 = if n <= 1 { 1 } else { 1 << (n - 1) };
        for mask in 0..masks {
            let cuts: Vec<usize> = (1..n).filter(|k| (mask >> (k - 1)) & 1 == 1).collect();
            let chunks = compose(&text, &cuts);
            for prefill in [false, true] {
                if prefill && mask != 0 {
                    continue;
                }
                let got = run_case(ctx, &chunks, prefill, lines + 2);
                execs += 1;
                if let Some(why) = judge(&text, &got) {
                    let v = Violation::new(
                        "read_line-wrong-line",
                        json!({"bytes": format!("{text:02x?}"), "cuts": cuts, "prefill": prefill}).to_string(),
                        json!({"why": why}),
                    );
                    return Outcome { nontrivial: true, class: "violation".into(), violations: vec![v], counters: vec![("executions", execs)], sample: None };
                }
            }
        }
        Outcome { nontrivial: std::str::from_utf8(&text).is_err(), class: "ok".into(), violations: vec![], counters: vec![("executions", execs)], sample: None }
    }
}

struct LongLines {
    two_cuts: bool,
}

fn long_texts() -> Vec<(String, Vec<u8>)> {
    let mut v = Vec::new();
    for len in [8191usize, 8192, 8193, 16_384, 16_385, 70_000] {
        for tail in ["\nz\n", "\nzé", "é\n\nq"] {
            let mut t = vec![b'L'; len];
            // a multi-byte character straddling the 8192 boundary
            if len >= 8193 {
                t[8191] = 0xC3;
                t[8192] = 0xA9;
            }
            t.extend_from_slice(tail.as_bytes());
            v.push((format!("{len}xL + {tail:?}"), t));
        }
    }
    v
}

impl Space for LongLines {
    fn id(&self) -> String {
        format!("long-lines-dev{}", if self.two_cuts { 2 } else { 1 })
    }
    fn size(&self) -> u64 {
        long_texts().len() as u64
    }
    fn profile(&self) -> Profile {
        Profile::Poison
    }
    fn chunk(&self) -> u64 {
        1
    }
    fn case_timeout_ms(&self) -> u64 {
        600_000
    }
    fn describe(&self, i: u64) -> String {
        format!("{} with all-at-once, 4096-byte pieces and every chunking with <= {} extra cuts", long_texts()[i as usize].0, if self.two_cuts { 2 } else { 1 })
    }
    fn run(&self, ctx: &mut Ctx, i: u64) -> Outcome {
        let (name, text) = long_texts()[i as usize].clone();
        let lines = expected_lines(&text).len();
        let n = text.len();
        let mut points: Vec<usize> = Vec::new();
        for (k, &b) in text.iter().enumerate() {
            if b == b'\n' {
                points.extend([k.saturating_sub(1), k, k + 1]);
            }
            if b >= 0x80 {
                points.push(k);
            }
        }
        for c in [8192usize, 16_384, 4096] {
            points.extend([c - 1, c, c + 1]);
        }
        points.retain(|&p| p > 0 && p < n);
        points.sort_unstable();
        points.dedup();
        let mut scripts: Vec<(Vec<usize>, bool)> = vec![(vec![], true), (vec![], false)];
        for (a, &p) in points.iter().enumerate() {
            scripts.push((vec![p], false));
            if self.two_cuts {
                for &q in &points[a + 1..] {
                    scripts.push((vec![p, q], false));
                }
            }
        }
        let mut execs = 0;
        for (cuts, prefill) in scripts {
            let chunks = compose(&text, &cuts);
            let got = run_case(ctx, &chunks, prefill, lines + 2);
            execs += 1;
            if let Some(why) = judge(&text, &got) {
                let v = Violation::new(
                    "read_line-wrong-line",
                    json!({"text": name, "cuts": cuts, "prefill": prefill}).to_string(),
                    json!({"why": why}),
                );
                return Outcome { nontrivial: true, class: "violation".into(), violations: vec![v], counters: vec![("executions", execs)], sample: None };
            }
        }
        Outcome { nontrivial: true, class: "ok".into(), violations: vec![], counters: vec![("executions", execs)], sample: None }
    }
}

/// the same feeder against the shipped binary
struct CliLines {
    thorough: bool,
}

fn cli_cases(thorough: bool) -> Vec<(Vec<u8>, Vec<usize>, bool)> {
    let mut v: Vec<(Vec<u8>, Vec<usize>, bool)> = Vec::new();
    let texts = Strings::new(&["x", "\n", "é"], 3);
    for i in 0..texts.count() {
        let t = texts.nth(i).into_bytes();
        if t.is_empty() {
            continue;
        }
        v.push((t.clone(), vec![], true));
        let n = t.len();
        let masks: u64 = if n <= 1 { 1 } else { 1 << (n - 1) };
        for mask in (0..masks).step_by(if thorough { 1 } else { 3 }) {
            let cuts: Vec<usize> = (1..n).filter(|k| (mask >> (k - 1)) & 1 == 1).collect();
            v.push((t.clone(), cuts, false));
        }
    }
    for (_, t) in long_texts().into_iter().step_by(if thorough { 1 } else { 4 }) {
        v.push((t.clone(), vec![], true));
        v.push((t.clone(), vec![8192], false));
    }
    v
}

fn run_cli(build: Build, text: &[u8], cuts: &[usize], prefill: bool, calls: usize) -> Result<Vec<Vec<u8>>, String> {
    use std::process::{Command, Stdio};
    let script: String = (0..calls).map(|_| "shout(read_line(\"\"))\n").collect();
    let dir = crate::util::verif_root().join("target/tmp").join(format!("w{}", std::process::id()));
    let _ = std::fs::create_dir_all(&dir);
    let f = dir.join("readline.ns");
    std::fs::write(&f, script).map_err(|e| e.to_string())?;
    let mut child = Command::new(build.path())
        .arg(&f)
        .stdin(Stdio::piped())
        .stdout(Stdio::piped())
        .stderr(Stdio::piped())
        .spawn()
        .map_err(|e| e.to_string())?;
    let mut si = child.stdin.take().unwrap();
    let chunks: Vec<Vec<u8>> = compose(text, cuts).into_iter().map(<[u8]>::to_vec).collect();
    use std::os::fd::AsRawFd;
    let wfd = si.as_raw_fd();
    unsafe { libc::fcntl(wfd, libc::F_SETPIPE_SZ, 1 << 20) };
    let t0 = std::time::Instant::now();
    for c in &chunks {
        if !prefill {
            while pending(wfd) != 0 {
                if t0.elapsed() > Duration::from_secs(20) {
                    let _ = child.kill();
                    return Err("child stopped reading".into());
                }
                std::thread::yield_now();
            }
        }
        if si.write_all(c).is_err() {
            break;
        }
    }
    if !prefill {
        while pending(wfd) != 0 && t0.elapsed() < Duration::from_secs(20) {
            std::thread::yield_now();
        }
    }
    drop(si);
    let out = child.wait_with_output().map_err(|e| e.to_string())?;
    if !out.status.success() {
        return Err(format!("exit {:?}: {}", out.status, String::from_utf8_lossy(&out.stderr).chars().take(200).collect::<String>()));
    }
    // one line per shout; a printed line may itself be empty
    let mut lines: Vec<Vec<u8>> = out.stdout.split(|&b| b == b'\n').map(<[u8]>::to_vec).collect();
    lines.pop();
    Ok(lines)
}

impl Space for CliLines {
    fn id(&self) -> String {
        "naija-read_line".into()
    }
    fn size(&self) -> u64 {
        cli_cases(self.thorough).len() as u64 * 2
    }
    fn chunk(&self) -> u64 {
        16
    }
    fn case_timeout_ms(&self) -> u64 {
        120_000
    }
    fn describe(&self, i: u64) -> String {
        let c = &cli_cases(self.thorough)[(i / 2) as usize];
        format!("naija({}) reading {} bytes, cuts {:?}, prefill {}", if i % 2 == 0 { "dev" } else { "release" }, c.0.len(), c.1, c.2)
    }
    fn run(&self, _ctx: &mut Ctx, i: u64) -> Outcome {
        let (text, cuts, prefill) = cli_cases(self.thorough)[(i / 2) as usize].clone();
        let build = if i % 2 == 0 { Build::Dev } else { Build::Release };
        let want = expected_lines(&text);
        let calls = want.len() + 2;
        let input = json!({"build": build.name(), "text": if text.len() > 64 { format!("{} bytes", text.len()) } else { String::from_utf8_lossy(&text).to_string() }, "cuts": cuts, "prefill": prefill}).to_string();
        match run_cli(build, &text, &cuts, prefill, calls) {
            Err(e) => Outcome::bad("violation", Violation::new("naija-read_line-failed", input, json!({"why": e}))),
            Ok(got) => {
                let got_r: Vec<Result<Vec<u8>, String>> = got.into_iter().map(Ok).collect();
                if got_r.len() != calls {
                    return Outcome::bad("violation", Violation::new("naija-read_line-wrong-line", input, json!({"why": format!("{} lines printed for {calls} calls", got_r.len())})));
                }
                if let Some(why) = judge(&text, &got_r) {
                    return Outcome::bad("violation", Violation::new("naija-read_line-wrong-line", input, json!({"why": why})));
                }
                Outcome::ok("ok", want.len() >= 2 || text.len() > 8192)
            }
        }
    }
}

pub fn spaces(tier: Tier) -> Vec<Box<dyn Space>> {
    let t = tier == Tier::Thorough;
    vec![
        Box::new(ShortTexts { texts: Strings::new(&["x", "\n", "é"], if t { 6 } else { 5 }) }),
        Box::new(ByteTexts { max_len: if t { 5 } else { 4 } }),
        Box::new(LongLines { two_cuts: t }),
        Box::new(CliLines { thorough: t }),
    ]
}
