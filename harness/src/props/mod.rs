//! Per-property spaces and metadata.

use crate::engine::{PropMeta, Space, Tier};

pub mod c13;

pub fn spaces(prop: &str, tier: Tier) -> Vec<Box<dyn Space>> {
    match prop {
        "C13" => c13::spaces(tier),
        _ => Vec::new(),
    }
}

pub fn meta(prop: &str, tier: Tier) -> PropMeta {
    match prop {
        "C13" => c13::meta(tier),
        _ => PropMeta {
            id: "?",
            level: "exploration",
            rule: String::new(),
            assumptions: vec![],
            explanation: String::new(),
        },
    }
}
