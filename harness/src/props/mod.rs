//! Per-property spaces and metadata.

use crate::engine::{PropMeta, Space, Tier};

pub mod c01;
pub mod c02;
pub mod c03;
pub mod c04;
pub mod c05;
pub mod c06;
pub mod c07;
pub mod c08;
pub mod c09;
pub mod c10;
pub mod c11;
pub mod c12;
pub mod c13;
pub mod c14;
pub mod c15;
pub mod c16;
pub mod c17;
pub mod c18;
pub mod refcmp;

pub fn spaces(prop: &str, tier: Tier) -> Vec<Box<dyn Space>> {
    match prop {
        "C01" => c01::spaces(tier),
        "C02" => c02::spaces(tier),
        "C03" => c03::spaces(tier),
        "C04" => c04::spaces(tier),
        "C05" => c05::spaces(tier),
        "C06" => c06::spaces(tier),
        "C07" => c07::spaces(tier),
        "C08" => c08::spaces(tier),
        "C09" => c09::spaces(tier),
        "C10" => c10::spaces(tier),
        "C11" => c11::spaces(tier),
        "C12" => c12::spaces(tier),
        "C13" => c13::spaces(tier),
        "C14" => c14::spaces(tier),
        "C15" => c15::spaces(tier),
        "C16" => c16::spaces(tier),
        "C17" => c17::spaces(tier),
        "C18" => c18::spaces(tier),
        _ => Vec::new(),
    }
}

pub fn meta(prop: &str, tier: Tier) -> PropMeta {
    match prop {
        "C01" => c01::meta(tier),
        "C02" => c02::meta(tier),
        "C03" => c03::meta(tier),
        "C04" => c04::meta(tier),
        "C05" => c05::meta(tier),
        "C06" => c06::meta(tier),
        "C07" => c07::meta(tier),
        "C08" => c08::meta(tier),
        "C09" => c09::meta(tier),
        "C10" => c10::meta(tier),
        "C11" => c11::meta(tier),
        "C12" => c12::meta(tier),
        "C13" => c13::meta(tier),
        "C14" => c14::meta(tier),
        "C15" => c15::meta(tier),
        "C16" => c16::meta(tier),
        "C17" => c17::meta(tier),
        "C18" => c18::meta(tier),
        _ => PropMeta {
            id: "?",
            level: "exploration",
            rule: String::new(),
            assumptions: vec![],
            explanation: String::new(),
        },
    }
}
