//! C03 — analysis-driven pruning never changes behaviour (E1; plan on vs off, plus the
//! executed-statement hook for "reported unreachable ⇒ never executes").

use naijascript::diagnostics::AsStr;
use naijascript::resolver::SemanticError;
use naijascript::runtime::RuntimeErrorKind;
use serde_json::json;

use crate::ast::*;
use crate::drive::{self, Ctx, End, Front, M0, M1, M2, M3, RunOpts};
use crate::engine::{Outcome, Profile, PropMeta, Space, Tier, Violation};
use crate::gen_prog::{Gen, pair, seq_range, triple};

pub fn meta(_tier: Tier) -> PropMeta {
    PropMeta {
        id: "C03",
        level: "exploration",
        rule: "every combination of a function body (sequence over a 14-statement alphabet: reads/writes of \
               captured variables, trapping operations on a dynamically typed parameter, unused locals, early \
               returns, recursion, calls of capture-writing helpers) with a main sequence (over a 30-statement \
               alphabet: calls used/unused, may-trap initialisers, dead code after return/comot/next, \
               overwritten assignments, loops, nested blocks, unused functions) is run with the optimisation \
               plan (M1) and without (M3), reclamation off in both, and as shipped (M0 vs M2); additionally the \
               statement ids executed by the plan-free run (hook) are checked against every `Unreachable code` \
               warning span. Non-trivial = the plan actually skipped >= 1 statement or function at run time \
               (hook counter); distinct by program text"
            .into(),
        assumptions: vec![
            "runs ending in the stack-overflow error are not compared (resource exhaustion is excluded by the property)".into(),
            "a difference between M0 and M2 that comes with M0!=M1 or M2!=M3 is attributed to reclamation (C02), not to pruning".into(),
            "bound: body length and the statement alphabets".into(),
        ],
        explanation: String::new(),
    }
}

fn body_alphabet() -> Vec<S> {
    let x = || var("x");
    vec![
        shout(st("f")),
        set("x", bin(Op::Add, x(), num("1"))),
        S::Ret(Some(x())),
        S::Ret(Some(bin(Op::Div, num("1"), x()))),
        make("n", meth(var("p"), "len", vec![])),
        make("n", bin(Op::Sub, var("p"), num("1"))),
        make("u", num("5")),
        make("u", bin(Op::Add, x(), num("1"))),
        S::If(bin(Op::Gt, x(), num("0")), vec![S::Ret(Some(num("0")))], None),
        S::If(bin(Op::Lt, x(), num("3")), vec![set("x", bin(Op::Add, x(), num("1"))), S::Ret(Some(call("f", vec![var("p")])))], None),
        S::Expr(call("g", vec![])),
        S::Ret(Some(call("g", vec![]))),
        make("w", call("r", vec![])),
        S::Ret(Some(idx(var("a"), x()))),
        // a condition on the parameter itself: a type mismatch unless the argument is a boolean
        S::If(var("p"), vec![S::Ret(Some(num("1")))], None),
        // the captured read sits three call edges down
        S::Ret(Some(call("r3", vec![]))),
        make("w", call("r3", vec![])),
    ]
}

fn main_alphabet() -> Vec<S> {
    let x = || var("x");
    vec![
        make("y", call("f", vec![num("1")])),
        make("y", call("f", vec![st("s")])),
        S::Expr(call("f", vec![num("2")])),
        shout(call("f", vec![E::Arr(vec![num("1")])])),
        make("y", bin(Op::Div, num("1"), x())),
        make("y", idx(var("a"), x())),
        make("y", bin(Op::Add, x(), num("1"))),
        make("y", num("7")),
        set("x", num("0")),
        set("x", num("5")),
        set("x", bin(Op::Add, x(), call("g", vec![]))),
        shout(x()),
        shout(E::Str(vec![SP::Var("x".into())])),
        // the D16 shape: an unused assignment whose right-hand side calls a capture writer
        make("t", bin(Op::Add, x(), call("g", vec![]))),
        make("t", st("over")),
        make("t", call("r", vec![])),
        S::If(bin(Op::Eq, x(), num("0")), vec![shout(st("zero"))], Some(vec![set("x", bin(Op::Sub, x(), num("1")))])),
        S::Loop(bin(Op::Lt, x(), num("2")), vec![set("x", bin(Op::Add, x(), num("1"))), S::Next, shout(st("dead-next"))]),
        S::Loop(E::Bool(true), vec![S::Break, shout(st("dead-comot"))]),
        S::Loop(bin(Op::Lt, x(), num("3")), vec![make("q", x()), set("x", bin(Op::Add, x(), num("1"))), set("q", num("9"))]),
        S::Block(vec![make("y", num("2")), set("y", num("3"))]),
        S::Block(vec![make("z", call("g", vec![])), make("z", num("1")), shout(var("z"))]),
        func("h", &[], vec![shout(st("h")), S::Expr(call("g", vec![]))]),
        func("dd", &[], vec![S::Ret(Some(num("1"))), S::Expr(call("f", vec![num("0")])), shout(st("dead-ret"))]),
        S::Expr(call("dd", vec![])),
        S::If(E::Bool(false), vec![S::Expr(call("h2", vec![]))], None),
        func("h2", &[], vec![shout(st("h2")), set("x", num("42"))]),
        S::SetIdx(idx(var("a"), num("0")), x()),
        make("b2", var("a")),
        S::Expr(meth(var("a"), "push", vec![x()])),
        // an assignment whose callee reads the assigned variable before the write, across a
        // basic-block boundary that does not itself read it
        set("x", call("r", vec![])),
        S::If(E::Bool(true), vec![], None),
        set("x", bin(Op::Add, call("r", vec![]), num("1"))),
        // a variable of a nested scope, re-assigned in an inner branch, read in the last
        // basic block of its scope
        S::Block(vec![make("t2", num("0")), S::If(bin(Op::Lt, x(), num("9")), vec![set("t2", num("5"))], None), shout(var("t2"))]),
        S::Loop(bin(Op::Lt, x(), num("2")), vec![set("x", bin(Op::Add, x(), num("1"))), make("q2", num("0")), S::If(bin(Op::Eq, x(), num("1")), vec![set("q2", num("7"))], None), shout(var("q2"))]),
        S::If(E::Bool(true), vec![make("t3", st("a")), S::Loop(bin(Op::Lt, x(), num("1")), vec![set("x", bin(Op::Add, x(), num("1"))), set("t3", st("b"))]), shout(var("t3"))], None),
        shout(call("r3", vec![])),
        // a callee that only MAY write the captured variable
        S::Expr(call("mw", vec![])),
        // a variable re-assigned to another type, then used by a pure-looking unused initialiser
        set("x", st("str")),
        make("y", bin(Op::Sub, x(), num("1"))),
        // a hoisted function that reads a variable whose declaration has not run yet
        make("y", call("lr", vec![])),
        // statically accepted operand pairs / arguments that the evaluator rejects
        make("y", bin(Op::Add, st("a"), E::Bool(true))),
        make("y", bin(Op::Or, E::Null, num("5"))),
        make("y", meth(st("abc"), "find", vec![num("5")])),
        make("y", E::Not(Box::new(E::Null))),
        // static types that do not hold at run time: a non-string for `command`, a function that
        // can fall off its end, a copy of a re-typed variable, a return type inferred through a
        // shadowed function name
        make("t", call("command", vec![x()])),
        make("y", bin(Op::Add, call("fo", vec![]), num("1"))),
        make("y", x()),
        make("t", bin(Op::Sub, var("y"), num("1"))),
        make("y", call("sh", vec![])),
        // a callee that writes a captured variable without reading it (directly / one call down)
        make("y", call("wr", vec![])),
        make("t", call("wr2", vec![])),
    ]
}

fn programs(body_len: u32, main_len: u32) -> Gen<Vec<S>> {
    let bodies = seq_range(&Gen::of(body_alphabet()), 0, body_len);
    let mains = seq_range(&Gen::of(main_alphabet()), 1, main_len);
    let x0 = Gen::of(vec!["0", "1"]);
    pair(&pair(&x0, &bodies, |x, b| (x, b)), &mains, |(x0, body), main| {
        let mut p = vec![
            make("x", num(x0)),
            make("a", E::Arr(vec![num("10"), num("20")])),
            func("g", &[], vec![set("x", bin(Op::Add, var("x"), num("10"))), S::Ret(Some(var("x")))]),
            func("r", &[], vec![S::Ret(Some(var("x")))]),
            func("r2", &[], vec![S::Ret(Some(call("r", vec![])))]),
            func("r3", &[], vec![S::Ret(Some(call("r2", vec![])))]),
            func("mw", &[], vec![S::If(bin(Op::Gt, var("x"), num("100")), vec![set("x", num("0"))], None)]),
            func("fo", &[], vec![S::If(bin(Op::Gt, var("x"), num("100")), vec![S::Ret(Some(num("1")))], None)]),
            func("sh", &[], vec![func("r", &[], vec![S::Ret(Some(st("inner-r")))]), S::Ret(Some(call("r", vec![])))]),
            func("wr", &[], vec![set("x", num("7")), S::Ret(Some(num("1")))]),
            func("wr2", &[], vec![S::Ret(Some(call("wr", vec![])))]),
            func("f", &["p"], body),
        ];
        p.extend(main);
        p.push(shout(var("x")));
        p.push(shout(var("a")));
        p.push(make("late", num("1")));
        p.push(func("lr", &[], vec![S::Ret(Some(var("late")))]));
        p.push(shout(call("lr", vec![])));
        p
    })
}

/// Everything the live part of a block can still reach in that block's unreachable suffix:
/// hoisted function definitions (called from the live prefix), declarations, effects.
/// host x live prefix x dead suffix (sequences up to `dead_len` over the dead alphabet).
pub fn dead_suffix_programs(dead_len: u32) -> Gen<Vec<S>> {
    let x = || var("x");
    let live_alphabet = || -> Vec<Vec<S>> {
        vec![
            vec![],
            vec![shout(call("lf", vec![]))],
            vec![make("t", call("lf", vec![]))],
            vec![S::Expr(call("lf", vec![]))],
            vec![shout(call("lf2", vec![]))],
            vec![make("t", call("lf", vec![])), set("t", num("1")), shout(var("t"))],
        ]
    };
    let dead_alphabet = vec![
        func("lf", &[], vec![S::Ret(Some(num("2")))]),
        func("lf", &[], vec![set("x", bin(Op::Add, x(), num("10"))), S::Ret(Some(x()))]),
        func("lf", &[], vec![S::Ret(Some(var("d")))]),
        func("lf2", &[], vec![S::Ret(Some(call("lf", vec![])))]),
        make("d", num("1")),
        shout(st("dead")),
        set("x", num("77")),
        S::Expr(call("lf", vec![])),
    ];
    let deads = seq_range(&Gen::of(dead_alphabet), 1, dead_len);
    let hosts = Gen::of((0..7u8).collect::<Vec<_>>());
    let lives = Gen::of(live_alphabet());
    triple(&hosts, &lives, &deads, |host, live, dead| {
        let x = || var("x");
        // every program declares what the alphabets mention so most combinations are accepted
        let mut pre = vec![make("x", num("0")), make("d", num("5"))];
        let defaults = vec![func("lf", &[], vec![S::Ret(Some(num("901")))]), func("lf2", &[], vec![S::Ret(Some(num("902")))])];
        let wrap = |term: Vec<S>| -> Vec<S> {
            let mut b = live.clone();
            b.extend(term);
            b.extend(dead.clone());
            b
        };
        let body: Vec<S> = match host {
            0 => vec![func("host", &[], wrap(vec![S::Ret(Some(num("1")))])), shout(call("host", vec![]))],
            1 => vec![S::Loop(E::Bool(true), wrap(vec![S::Break]))],
            2 => {
                let mut b = vec![set("x", bin(Op::Add, x(), num("1")))];
                b.extend(wrap(vec![S::Next]));
                vec![S::Loop(bin(Op::Lt, x(), num("2")), b)]
            }
            3 => vec![
                func("host", &[], wrap(vec![S::If(bin(Op::Gt, x(), num("0")), vec![S::Ret(Some(num("1")))], Some(vec![S::Ret(Some(num("2")))]))])),
                shout(call("host", vec![])),
            ],
            4 => vec![func("host", &[], vec![S::Block(wrap(vec![S::Ret(Some(num("1")))])), shout(st("after-block"))]), shout(call("host", vec![]))],
            5 => vec![func("host", &[], vec![S::If(bin(Op::Eq, x(), num("0")), wrap(vec![S::Ret(Some(num("1")))]), None), S::Ret(Some(num("3")))]), shout(call("host", vec![]))],
            // control: no terminator, the suffix is live
            _ => wrap(vec![]),
        };
        pre.extend(defaults);
        pre.extend(body);
        pre.push(shout(x()));
        pre
    })
}

/// Unused values computed by calls into call-graph cycles: pure, but a cycle can recurse until
/// the stack overflows, and that error must not disappear with the unused value. (Kept out of
/// the big alphabet: every overflowing run costs milliseconds.)
fn recursive_callee_programs() -> Gen<Vec<S>> {
    let defs = || -> Vec<S> {
        vec![
            func("inf", &[], vec![S::Ret(Some(call("inf", vec![])))]),
            func("pa", &[], vec![S::Ret(Some(call("pb", vec![])))]),
            func("pb", &[], vec![S::Ret(Some(bin(Op::Add, call("pa", vec![]), num("1"))))]),
            func("fact", &["n"], vec![S::If(bin(Op::Lt, var("n"), num("2")), vec![S::Ret(Some(num("1")))], None), S::Ret(Some(bin(Op::Mul, var("n"), call("fact", vec![bin(Op::Sub, var("n"), num("1"))]))))]),
            func("deep", &["n"], vec![S::If(bin(Op::Lt, var("n"), num("1")), vec![S::Ret(Some(num("0")))], None), S::Ret(Some(call("deep", vec![bin(Op::Add, var("n"), num("1"))])))]),
        ]
    };
    let calls = vec![call("inf", vec![]), call("pa", vec![]), call("fact", vec![num("5")]), call("deep", vec![num("1")]), bin(Op::Add, num("1"), call("inf", vec![])), E::Arr(vec![call("pb", vec![])])];
    let mut v: Vec<Vec<S>> = Vec::new();
    for c in calls {
        for ctx in 0..5u8 {
            let mut p = defs();
            p.push(make("x", num("0")));
            p.push(shout(st("start")));
            match ctx {
                0 => p.push(make("y", c.clone())),
                1 => {
                    p.push(set("x", c.clone()));
                    p.push(set("x", num("1")));
                }
                2 => p.push(func("host", &[], vec![make("y", c.clone()), S::Ret(Some(num("3")))])),
                3 => p.push(S::Loop(bin(Op::Lt, var("x"), num("1")), vec![set("x", bin(Op::Add, var("x"), num("1"))), make("y", c.clone())])),
                _ => p.push(S::If(bin(Op::Eq, var("x"), num("0")), vec![make("y", c.clone())], None)),
            }
            if ctx == 2 {
                p.push(shout(call("host", vec![])));
            }
            p.push(shout(var("x")));
            v.push(p);
        }
    }
    // the value nesting limit is a run-time error of the same kind: an array built to the
    // limit (2048 levels), then wrapped once more in a store whose value is never used
    for wrap in [E::Arr(vec![var("a")]), E::Arr(vec![num("1"), E::Arr(vec![var("a")])]), call("wrapit", vec![var("a")])] {
        for unused_in_function in [false, true] {
            let mut p = vec![
                func("wrapit", &["q"], vec![S::Ret(Some(E::Arr(vec![var("q")])))]),
                make("a", E::Arr(vec![num("0")])),
                make("i", num("0")),
                S::Loop(bin(Op::Lt, var("i"), num("2047")), vec![set("a", E::Arr(vec![var("a")])), set("i", bin(Op::Add, var("i"), num("1")))]),
                shout(st("built")),
            ];
            if unused_in_function {
                p.push(func("host", &["q"], vec![make("c", if matches!(wrap, E::Call(..)) { call("wrapit", vec![var("q")]) } else { E::Arr(vec![var("q")]) }), S::Ret(Some(num("3")))]));
                p.push(shout(call("host", vec![var("a")])));
            } else {
                p.push(make("c", wrap.clone()));
            }
            p.push(shout(st("done")));
            v.push(p);
        }
    }
    Gen::of(v)
}

/// A call that may never return cannot be run both ways; what can be decided is that the plan
/// does not mark its statement removable. The call sits under a condition that is false at run
/// time, so both runs terminate, and it is the only statement of the program whose value is
/// unused: the plan of each program must list no removable statement at all.
struct NeverRemovable;

fn never_removable_programs() -> Vec<String> {
    let callees = [
        "do spin() start jasi (true) start end return 1 end",
        "do spin() start make k get 0 jasi (k small pass 1) start k get k minus 1 end return k end",
        "do spin() start return spin2() end do spin2() start jasi (true) start end return 2 end",
        "do spin() start jasi (not false) start end return 1 end",
    ];
    let uses = ["make y get spin()", "make y get spin() add 1", "make y get [spin()]", "make y get 0 y get spin()"];
    let mut v = Vec::new();
    for c in callees {
        for u in uses {
            v.push(format!("{c}\nmake x get 0\nif to say (x na 1) start {u} shout(\"never\") end\nshout(\"done\")\n"));
        }
    }
    v
}

impl Space for NeverRemovable {
    fn id(&self) -> String {
        "possibly-nonterminating-callees-fast".into()
    }
    fn size(&self) -> u64 {
        never_removable_programs().len() as u64
    }
    fn profile(&self) -> Profile {
        Profile::Fast
    }
    fn chunk(&self) -> u64 {
        4
    }
    fn describe(&self, i: u64) -> String {
        never_removable_programs()[i as usize].clone()
    }
    fn run(&self, ctx: &mut Ctx, i: u64) -> Outcome {
        let text = never_removable_programs()[i as usize].clone();
        let o = drive::run_pipeline(ctx, &text, M1, RunOpts::default());
        if !matches!(o.front, Front::Accepted) {
            return Outcome::bad("differs", Violation::new("script-rejected", text, json!(o.show())));
        }
        if !o.removable_stmts.is_empty() {
            return Outcome::bad(
                "differs",
                Violation::new("statement-that-may-not-terminate-marked-removable", text, json!({"removable_statement_ids": o.removable_stmts, "plan": o.plan_some})),
            );
        }
        Outcome::ok("not removable", o.plan_some)
    }
}

pub fn programs_for_c06(thorough: bool) -> Gen<Vec<S>> {
    if thorough { programs(2, 3) } else { programs(2, 2) }
}

pub fn spaces(tier: Tier) -> Vec<Box<dyn Space>> {
    let t = tier == Tier::Thorough;
    let mut v: Vec<Box<dyn Space>> = Vec::new();
    v.push(Box::new(PruneSpace { id: "prune-b2-m2".into(), generator: programs(2, 2), profile: Profile::Fast, twin: t }));
    if t {
        v.push(Box::new(PruneSpace { id: "prune-b2-m3".into(), generator: programs(2, 3), profile: Profile::Fast, twin: false }));
        v.push(Box::new(PruneSpace { id: "prune-b3-m2".into(), generator: programs(3, 2), profile: Profile::Fast, twin: false }));
    } else {
        // main sequences of three over an empty function body (b1 x m3 is part of thorough's b2 x m3)
        v.push(Box::new(PruneSpace { id: "prune-b0-m3".into(), generator: programs(0, 3), profile: Profile::Fast, twin: false }));
    }
    v.push(Box::new(PruneSpace { id: "prune-b1-m2".into(), generator: programs(1, 2), profile: Profile::Poison, twin: false }));
    v.push(Box::new(NeverRemovable));
    v.push(Box::new(PruneSpace { id: "recursive-callees".into(), generator: recursive_callee_programs(), profile: Profile::Fast, twin: false }));
    v.push(Box::new(PruneSpace { id: "dead-suffix".into(), generator: dead_suffix_programs(if t { 3 } else { 2 }), profile: Profile::Fast, twin: true }));
    v.push(Box::new(PruneSpace { id: "twin-b1-m2".into(), generator: programs(1, 2), profile: Profile::Fast, twin: true }));
    v
}

struct PruneSpace {
    id: String,
    generator: Gen<Vec<S>>,
    profile: Profile,
    /// also run the metamorphic twin of every unused-value warning (3+ more runs per program)
    twin: bool,
}

impl Space for PruneSpace {
    fn id(&self) -> String {
        format!("{}-{}", self.id, self.profile.dir())
    }
    fn size(&self) -> u64 {
        self.generator.count
    }
    fn profile(&self) -> Profile {
        self.profile
    }
    fn chunk(&self) -> u64 {
        if self.profile == Profile::Poison { 256 } else { 4096 }
    }
    fn describe(&self, i: u64) -> String {
        print(&self.generator.nth(i))
    }
    fn run(&self, ctx: &mut Ctx, i: u64) -> Outcome {
        let p = self.generator.nth(i);
        if !printable(&p) {
            return Outcome::ok("skip:unprintable", false);
        }
        let o = check_text(ctx, &print(&p));
        if !o.violations.is_empty() {
            return o;
        }
        if self.twin
            && let Some(v) = twin_check(ctx, &p)
        {
            return Outcome::bad("differs", v);
        }
        o
    }
    fn replay(&self, ctx: &mut Ctx, input: &str) -> Option<serde_json::Value> {
        let o = check_text(ctx, input);
        Some(json!({"violation": !o.violations.is_empty(), "class": o.class,
            "detail": o.violations.first().map(|v| v.detail.clone())}))
    }
}

/// "a value reported as never read is never observed": for every Unused assignment / Unused
/// variable warning the twin program still evaluates the right-hand side (all its effects and
/// failures) but stores a sentinel instead; its behaviour without the plan must equal the
/// original's. Decides the clause also for statements the plan does not skip.
fn twin_check(ctx: &Ctx, prog: &[S]) -> Option<Violation> {
    let (text, starts) = print_with_offsets(prog);
    let base = drive::run_pipeline(ctx, &text, M3, RunOpts::default());
    if !matches!(base.front, Front::Accepted) || is_stack(&base.end) {
        return None;
    }
    let unused_a = SemanticError::UnusedAssignment.as_str();
    let unused_v = SemanticError::UnusedVariable.as_str();
    let mut seen = std::collections::BTreeSet::new();
    for w in base.warns.iter().filter(|w| w.severity == "warning" && (w.message == unused_a || w.message == unused_v)) {
        // innermost statement containing the warning's position
        let Some(k) = starts.iter().rposition(|&s| s <= w.span.0) else { continue };
        if !seen.insert(k) {
            continue;
        }
        let twin = replace_stmt(prog, k, &|s| match s {
            S::Make(v, Some(e)) => Some(S::Make(v.clone(), Some(call("twin_", vec![e.clone()])))),
            S::Set(v, e) => Some(S::Set(v.clone(), call("twin_", vec![e.clone()]))),
            _ => None,
        });
        let Some(mut twin) = twin else { continue };
        twin.insert(0, func("twin_", &["q"], vec![S::Ret(Some(num("424242")))]));
        let ttext = print(&twin);
        let t = drive::run_pipeline(ctx, &ttext, M3, RunOpts::default());
        if !matches!(t.front, Front::Accepted) || is_stack(&t.end) {
            continue; // the sentinel's static type does not fit a later use: no verdict
        }
        if t.behaviour() != base.behaviour() {
            return Some(Violation::new(
                "value-reported-as-never-read-is-observed",
                text.clone(),
                json!({"warning": w.message, "statement_index": k, "twin": ttext,
                       "original": base.show(), "with_sentinel": t.show()}),
            ));
        }
    }
    None
}

fn is_stack(e: &End) -> bool {
    matches!(e, End::RuntimeError(m) if m == RuntimeErrorKind::StackOverflow.as_str())
}

pub fn check_text(ctx: &Ctx, text: &str) -> Outcome {
    // plan off, reclamation off, recording which statements execute
    let m3 = drive::run_pipeline(ctx, text, M3, RunOpts { record_executed: true });
    if !matches!(m3.front, Front::Accepted) {
        return Outcome::ok("not-accepted", false);
    }
    let m1 = drive::run_pipeline(ctx, text, M1, RunOpts::default());
    let skipped = m1.trace.stmts_skipped + m1.trace.functions_skipped;
    // (2) a statement reported unreachable never executes
    let unreachable = SemanticError::UnreachableCode.as_str();
    for w in m3.warns.iter().filter(|w| w.message == unreachable && w.severity == "warning") {
        for &(s, e) in &m3.executed_spans {
            // Function definitions are hoisted: a definition sitting in dead code is reported (the
            // definition statement is never reached) while its body, a separate unit entered by a
            // call from live code, may legitimately run. Only the reported statement itself and
            // what it contains outside nested function bodies is held to "never executes".
            let in_nested_body = m3
                .funcdef_spans
                .iter()
                .any(|&(fs, fe)| fs >= w.span.0 && fe <= w.span.1 && s >= fs && e <= fe && (s, e) != (fs, fe));
            if s >= w.span.0 && e <= w.span.1 && !in_nested_body {
                return Outcome::bad(
                    "differs",
                    Violation::new(
                        "statement-reported-unreachable-executed",
                        text,
                        json!({"warning_span": [w.span.0, w.span.1], "executed_span": [s, e],
                               "executed_text": &text[s..e.min(text.len())]}),
                    ),
                );
            }
        }
    }
    // Both overflow: how much was printed before depends on native frame sizes, not compared.
    // Only one overflows: the plan added or removed a run-time error (judged below).
    if is_stack(&m1.end) && is_stack(&m3.end) {
        return Outcome::ok("skip:stack-overflow", false);
    }
    // (1) pruning in isolation
    if m1.behaviour() != m3.behaviour() {
        return Outcome::bad(
            "differs",
            Violation::new(
                "pruning-changes-behaviour(M1!=M3)",
                text,
                json!({"with_plan": m1.show(), "without_plan": m3.show(),
                       "stmts_skipped": m1.trace.stmts_skipped, "functions_skipped": m1.trace.functions_skipped}),
            ),
        );
    }
    // as shipped
    let m0 = drive::run_pipeline(ctx, text, M0, RunOpts::default());
    let m2 = drive::run_pipeline(ctx, text, M2, RunOpts::default());
    if !(is_stack(&m0.end) && is_stack(&m2.end)) && m0.behaviour() != m2.behaviour() {
        if m0.behaviour() != m1.behaviour() || m2.behaviour() != m3.behaviour() {
            return Outcome::ok("attributed-to-reclamation(see C02)", false);
        }
        return Outcome::bad(
            "differs",
            Violation::new(
                "pruning-changes-behaviour(M0!=M2)",
                text,
                json!({"with_plan": m0.show(), "without_plan": m2.show()}),
            ),
        );
    }
    let class = match &m3.end {
        End::Normal => "agree:normal",
        End::RuntimeError(_) => "agree:runtime-error",
        End::Panic(_) => "agree:both-panic(see C06)",
    };
    Outcome::ok(class, skipped > 0)
}
