//! C02 — memory reclamation is invisible (E1 over histories of storage events; M0 vs M1 and
//! M2 vs M3: same program, reclamation on vs off; no reference interpreter involved).

use serde_json::json;

use crate::ast::*;
use crate::drive::{self, Ctx, Front, M0, M1, M2, M3, RunOpts};
use crate::engine::{Outcome, Profile, PropMeta, Space, Tier, Violation};
use crate::gen_prog::{Gen, seq_range};

pub fn meta(_tier: Tier) -> PropMeta {
    PropMeta {
        id: "C02",
        level: "exploration",
        rule: "every sequence (up to the stated length) of wrapped storage operations over two string \
               variables and one array — create, assign, overwrite, self-assign, push/pop/index-store, \
               pass to and return from functions that reassign captured variables (`x add f()`), recursion \
               — each wrapped plain / in a nested block / in a 2-iteration loop / in a capturing function, \
               with string sizes for pool classes 0-1, 1-2 and the >256-byte arena fallback; each program is \
               run with the frame arena on (M0) and off (M1), and again without the optimisation plan (M2 vs \
               M3); printed values are compared as raw bytes. Under the poison profile reset frames and \
               returned slots are filled with 0xDD, so a stale read cannot look right. Non-trivial = the M0 \
               run performed >= 1 frame reset and >= 1 pool return or copying promotion (hook counters); \
               distinct by program text"
            .into(),
        assumptions: vec![
            "M1 (`Runtime::new(arena, None)`) is the reclamation-free execution the code itself documents".into(),
            "bound: sequence length and the operation alphabet; only equality of the two runs is asserted, nothing about addresses or slot order".into(),
        ],
        explanation: String::new(),
    }
}

fn pad_lit(base: &str, pad: &str) -> E {
    st(&format!("{base}{pad}"))
}

/// the wrapped storage operations for one padding (string size) variant
fn ops(pad: &'static str) -> Vec<Vec<S>> {
    let l = |b: &str| pad_lit(b, pad);
    let s = || var("s");
    let t = || var("t");
    let a = || var("a");
    let add = |x: E, y: E| bin(Op::Add, x, y);
    let base: Vec<S> = vec![
        set("s", l("L1")),
        set("s", add(s(), l("+"))),
        set("s", t()),
        set("s", add(t(), s())),
        set("s", E::Str(vec![SP::Var("t".into()), SP::Lit(format!("!{pad}"))])),
        set("s", call("id", vec![t()])),
        set("s", call("id", vec![s()])),
        set("s", call("mk", vec![])),
        set("s", idx(a(), num("0"))),
        set("s", meth(a(), "join", vec![st("")])),
        set("s", meth(s(), "to_uppercase", vec![])),
        set("s", s()),
        // strings produced by the other built-ins
        set("s", meth(s(), "slice", vec![num("1"), num("4")])),
        // (the pattern occurs once: a pattern that also occurs in the padding makes three such
        // replacements grow the string beyond all memory, which is a property of the program)
        set("s", meth(s(), "replace", vec![st("s0"), t()])),
        set("s", meth(add(s(), st("  ")), "trim", vec![])),
        set("t", meth(s(), "to_lowercase", vec![])),
        set("s", call("to_string", vec![a()])),
        set("s", call("typeof", vec![s()])),
        set("s", idx(meth(s(), "split", vec![st("s")]), num("0"))),
        S::Expr(meth(a(), "reverse", vec![])),
        set("t", s()),
        set("t", add(s(), t())),
        set("t", call("id", vec![s()])),
        make("s", add(l("M"), l("N"))),
        make("s", s()),
        // re-declaration of the array in the same block (the old backing store is released)
        make("a", E::Arr(vec![add(s(), l("r")), t()])),
        make("a", a()),
        S::Expr(meth(a(), "push", vec![s()])),
        S::Expr(meth(a(), "push", vec![add(s(), l("p"))])),
        S::Expr(meth(a(), "push", vec![E::Arr(vec![s(), t()])])),
        S::Expr(meth(a(), "pop", vec![])),
        S::SetIdx(idx(a(), num("0")), s()),
        S::SetIdx(idx(a(), num("0")), add(s(), l("q"))),
        S::SetIdx(idx(a(), num("1")), t()),
        set("a", E::Arr(vec![s(), t()])),
        set("a", a()),
        set("a", meth(s(), "split", vec![st("L")])),
        // the `x add f()` family: a callee that reassigns a captured variable
        shout(add(s(), call("sett", vec![]))),
        shout(add(t(), call("sett", vec![]))),
        set("s", add(t(), call("sett", vec![]))),
        shout(call("sets", vec![s()])),
        set("s", call("sets", vec![t()])),
        set("t", call("sets", vec![s()])),
        shout(E::Arr(vec![s(), call("sets", vec![l("W")]), s()])),
        set("s", call("rec", vec![num("3"), s()])),
        shout(s()),
        shout(a()),
        // host values: their handles and strings live on the frame until promoted
        set("c", call("mkc", vec![s()])),
        set("c", call("mkc", vec![add(t(), l("h"))])),
        S::Expr(meth(var("c"), "arg", vec![s()])),
        S::Expr(meth(var("c"), "env", vec![st("K"), add(s(), l("v"))])),
        S::Expr(meth(a(), "push", vec![call("mkc", vec![t()])])),
        S::Expr(meth(a(), "push", vec![var("c")])),
        shout(var("c")),
        // a computed temporary passed to a function that returns its parameter unchanged
        set("s", call("id", vec![add(s(), l("+t"))])),
        shout(E::Arr(vec![call("id", vec![add(t(), l("<1>"))]), call("id", vec![add(t(), l("<2>"))])])),
        shout(call("first", vec![E::Arr(vec![add(s(), l("e")), t()])])),
        // an array parameter grown inside a loop of the callee
        set("a", call("grow", vec![a(), s()])),
        set("a", call("grow", vec![E::Arr(vec![]), add(t(), l("g"))])),
        shout(call("grow", vec![E::Arr(vec![s()]), t()])),
    ];
    let mut out = Vec::new();
    for (k, op) in base.iter().enumerate() {
        out.push(vec![op.clone()]);
        out.push(vec![S::Block(vec![op.clone()])]);
        out.push(vec![
            S::Make(format!("i{k}"), Some(num("0"))),
            S::Loop(
                bin(Op::Lt, var(&format!("i{k}")), num("2")),
                vec![op.clone(), S::Set(format!("i{k}"), bin(Op::Add, var(&format!("i{k}")), num("1")))],
            ),
        ]);
        // in a function that captures the globals (skip re-declarations: they would be locals)
        if !matches!(op, S::Make(..)) {
            out.push(vec![S::Func(format!("w{k}"), vec![], vec![op.clone()]), S::Expr(call(&format!("w{k}"), vec![]))]);
        }
    }
    out
}

fn preamble(pad: &str) -> Vec<S> {
    let l = |b: &str| pad_lit(b, pad);
    let add = |x: E, y: E| bin(Op::Add, x, y);
    vec![
        make("s", add(l("s0"), l("s1"))),
        make("t", l("t-lit")),
        make("a", E::Arr(vec![add(l("e0"), st("x")), l("e-lit")])),
        make("c", call("command", vec![l("prog")])),
        func("mkc", &["q"], vec![make("k", call("command", vec![add(l("p-"), var("q"))])), S::Expr(meth(var("k"), "arg", vec![var("q")])), S::Ret(Some(var("k")))]),
        func("grow", &["p", "w"], vec![
            make("k", num("0")),
            S::Loop(bin(Op::Lt, var("k"), num("5")), vec![S::Expr(meth(var("p"), "push", vec![add(var("w"), var("k"))])), set("k", add(var("k"), num("1")))]),
            S::Ret(Some(var("p"))),
        ]),
        func("id", &["p"], vec![S::Ret(Some(var("p")))]),
        func("first", &["p"], vec![S::Ret(Some(idx(var("p"), num("0"))))]),
        func("mk", &[], vec![S::Ret(Some(add(l("mk"), l("val"))))]),
        func("sets", &["v"], vec![set("s", add(var("v"), l("S"))), S::Ret(Some(var("v")))]),
        func("sett", &[], vec![set("t", add(l("T1"), l("T2"))), S::Ret(Some(st("zz")))]),
        func(
            "rec",
            &["k", "p"],
            vec![
                S::If(bin(Op::Lt, var("k"), num("1")), vec![S::Ret(Some(add(var("p"), st("."))))], None),
                S::Ret(Some(call("rec", vec![bin(Op::Sub, var("k"), num("1")), add(var("p"), st("r"))]))),
            ],
        ),
    ]
}

const PAD9: &str = "_______";
// 280 bytes: every string built from it exceeds the largest pooled size (256)
const PAD300: &str = "0123456789abcdefghijklmnopqrstuvwxyz0123456789abcdefghijklmnopqrstuvwxyz0123456789abcdefghijklmnopqrstuvwxyz0123456789abcdefghijklmnopqrstuvwxyz0123456789abcdefghijklmnopqrstuvwxyz0123456789abcdefghijklmnopqrstuvwxyz0123456789abcdefghijklmnopqrstuvwxyz0123456789abcdefghijklmnopqr";

fn programs(pad: &'static str, max_len: u32, core_only: bool) -> Gen<Vec<S>> {
    let all = ops(pad);
    let all = if core_only {
        // the sub-alphabet that moves strings across a call / loop / scope boundary
        all.into_iter()
            .filter(|w| {
                let txt = print(w);
                // the built-in string producers are in the full alphabet only
                if [".slice(", ".replace(", ".trim(", "to_string(", "typeof(", ".split(\"s\")", ".to_lowercase("].iter().any(|b| txt.contains(b)) {
                    return false;
                }
                txt.contains("sets(") || txt.contains("sett(") || txt.contains("id(") || txt.contains("s get s")
                    || txt.contains("a.push(s)") || txt.contains("a[0] get s")
                    || txt.contains("a.pop") || txt.contains("rec(") || txt.contains("mkc(") || txt.contains("grow(") || txt.contains("first(")
            })
            .collect()
    } else {
        all
    };
    let g = Gen::of(all);
    let pre = preamble(pad);
    seq_range(&g, 1, max_len).map(move |seq| {
        let mut p = pre.clone();
        for w in seq {
            p.extend(w);
        }
        p.push(shout(var("s")));
        p.push(shout(var("t")));
        p.push(shout(var("a")));
        p.push(shout(var("c")));
        p
    })
}

pub fn programs_for_c14() -> Gen<Vec<S>> {
    programs("", 2, false)
}

pub fn spaces(tier: Tier) -> Vec<Box<dyn Space>> {
    let t = tier == Tier::Thorough;
    let mut v: Vec<Box<dyn Space>> = Vec::new();
    let mut add = |id: String, g: Gen<Vec<S>>, profile: Profile| {
        v.push(Box::new(ReclaimSpace { id, generator: g, profile }));
    };
    for (name, pad) in [("len3", ""), ("len9", PAD9), ("len300", PAD300)] {
        // poison: every stale read visible
        add(format!("hist-{name}-all-le2"), programs(pad, 2, false), Profile::Poison);
        if t {
            add(format!("hist-{name}-core-le3"), programs(pad, 3, true), Profile::Poison);
        }
        // fast: the shipped behaviour (a stale read shows once the slot is reused); the quick
        // tier runs the two longer paddings in the poisoning build only
        if t || name == "len3" {
            add(format!("hist-{name}-all-le2"), programs(pad, 2, false), Profile::Fast);
        }
        if t {
            add(format!("hist-{name}-all-le3"), programs(pad, 3, false), Profile::Fast);
        } else if name == "len3" {
            add(format!("hist-{name}-core-le3"), programs(pad, 3, true), Profile::Fast);
        }
    }
    v
}

struct ReclaimSpace {
    id: String,
    generator: Gen<Vec<S>>,
    profile: Profile,
}

impl Space for ReclaimSpace {
    fn id(&self) -> String {
        format!("{}-{}", self.id, self.profile.dir())
    }
    fn size(&self) -> u64 {
        self.generator.count
    }
    fn profile(&self) -> Profile {
        self.profile
    }
    fn chunk(&self) -> u64 {
        if self.profile == Profile::Poison { 256 } else { 4096 }
    }
    fn describe(&self, i: u64) -> String {
        print(&self.generator.nth(i))
    }
    fn run(&self, ctx: &mut Ctx, i: u64) -> Outcome {
        let text = print(&self.generator.nth(i));
        check_text(ctx, &text)
    }
    fn replay(&self, ctx: &mut Ctx, input: &str) -> Option<serde_json::Value> {
        let o = check_text(ctx, input);
        Some(json!({"violation": !o.violations.is_empty(), "class": o.class,
            "detail": o.violations.first().map(|v| v.detail.clone())}))
    }
}

pub fn check_text(ctx: &Ctx, text: &str) -> Outcome {
    let m0 = drive::run_pipeline(ctx, text, M0, RunOpts::default());
    if !matches!(m0.front, Front::Accepted) {
        return Outcome::ok("not-accepted", false);
    }
    let m1 = drive::run_pipeline(ctx, text, M1, RunOpts::default());
    let nontrivial = m0.trace.frame_resets >= 1 && (m0.trace.pool_returns >= 1 || m0.trace.promote_copies >= 1);
    if m0.behaviour() != m1.behaviour() {
        return Outcome::bad(
            "differs",
            Violation::new(
                "reclamation-visible(M0!=M1)",
                text,
                json!({"M0": m0.show(), "M1": m1.show(), "frame_resets": m0.trace.frame_resets,
                       "pool_returns": m0.trace.pool_returns, "promote_copies": m0.trace.promote_copies}),
            ),
        );
    }
    let m2 = drive::run_pipeline(ctx, text, M2, RunOpts::default());
    let m3 = drive::run_pipeline(ctx, text, M3, RunOpts::default());
    if m2.behaviour() != m3.behaviour() {
        return Outcome::bad(
            "differs",
            Violation::new(
                "reclamation-visible(M2!=M3)",
                text,
                json!({"M2": m2.show(), "M3": m3.show()}),
            ),
        );
    }
    let class = match &m0.end {
        drive::End::Normal => "agree:normal",
        drive::End::RuntimeError(_) => "agree:runtime-error",
        drive::End::Panic(_) => "agree:both-panic(see C06)",
    };
    Outcome::ok(class, nontrivial)
}
