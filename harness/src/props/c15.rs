//! C15 — child processes get exactly the configured argv, env, cwd and stdin.
//! E2: breadth-first search over builder call sequences in lock-step with a plain-struct
//! model; in every state the command is *run* through the real script-level API and the
//! child (`vchild dump`) reports what it actually received.

use std::collections::{BTreeMap, HashSet, VecDeque};
use std::path::PathBuf;

use naijascript::diagnostics::AsStr;
use naijascript::process::{HostPolicy, ProcessCaps};
use naijascript::runtime::RuntimeErrorKind;
use serde_json::json;

use crate::drive::{self, Ctx, End, Front, M0, RunOpts, TV};
use crate::engine::{Outcome, Profile, PropMeta, Space, Tier, Violation};

pub fn meta(_tier: Tier) -> PropMeta {
    PropMeta {
        id: "C15",
        level: "model_checking",
        rule: "breadth-first search over sequences of builder calls — arg(s) for 14 strings (empty, blank, quotes, \
               `$HOME`, `*`, `;ls`, newline, multi-byte, `-x`, `k=v`, NUL, a number), env(k,v) for 5 keys x 3 \
               values (incl. empty / `A=B` / NUL keys, repeated keys), cwd (existing, with a space, missing, \
               empty), stdin_text / stdin_null / stdin_inherit, timeout_ms (0, 1, 1.5, -1, max, max+1) — to \
               depth 2 over the full alphabet and depth 3 (thorough 4) over a core alphabet, deduplicated on the \
               model state (args, env with last-write-wins, cwd, stdin, timeout). In every state a real script \
               builds the command, runs it and prints the child's report: argv must equal [program] ++ args byte \
               for byte, the environment must equal the inherited one overlaid with the overrides, cwd and stdin \
               must be the configured ones; an invalid state must end in the configuration error with no child \
               spawned (marker file absent); every state is also run under allow_process=false (always denied, \
               no marker). Plus every one of the 12 size/count caps set small and probed at cap-1, cap, cap+1 (the \
               two totals split 2 and 3 ways) and the default max_args / max_arg_bytes at their real boundaries. \
               A case = one first operation (subtree) or one cap; non-trivial = at least one child was spawned \
               and verified and at least one invalid state was refused"
            .into(),
        assumptions: vec![
            "the child reports through stdout (hex encoded), captured by the implementation under test: a capture defect would show here as a mismatch too".into(),
            "depth bound and the stated string alphabet".into(),
        ],
        explanation: String::new(),
    }
}

fn vchild() -> PathBuf {
    // next to the running harness binary
    let mut p = std::env::current_exe().expect("current exe");
    p.pop();
    p.join("vchild")
}

#[derive(Clone, Debug, PartialEq, Eq, Hash)]
enum Op {
    Arg(String),
    ArgNum(String),
    Env(String, String),
    Cwd(String),
    StdinText(String),
    StdinNull,
    StdinInherit,
    Timeout(String),
}

#[derive(Clone, Debug, PartialEq, Eq, Hash)]
enum StdinM {
    Inherit,
    Null,
    Text(String),
}

#[derive(Clone, Debug, PartialEq, Eq, Hash)]
struct Model {
    args: Vec<String>,
    env: Vec<(String, String)>,
    cwd: Option<String>,
    stdin: StdinM,
    timeout: Option<u32>,
    /// a builder call itself failed (bad timeout value): the script ends there
    builder_error: bool,
}

impl Model {
    fn new() -> Self {
        Model { args: vec!["dump".into()], env: vec![], cwd: None, stdin: StdinM::Inherit, timeout: None, builder_error: false }
    }
    fn apply(&mut self, op: &Op) {
        if self.builder_error {
            return;
        }
        match op {
            Op::Arg(s) => self.args.push(s.clone()),
            Op::ArgNum(n) => self.args.push(format!("{}", n.parse::<f64>().unwrap())),
            Op::Env(k, v) => {
                if let Some(p) = self.env.iter_mut().find(|(kk, _)| kk == k) {
                    p.1 = v.clone();
                } else {
                    self.env.push((k.clone(), v.clone()));
                }
            }
            Op::Cwd(p) => self.cwd = Some(p.clone()),
            Op::StdinText(s) => self.stdin = StdinM::Text(s.clone()),
            Op::StdinNull => self.stdin = StdinM::Null,
            Op::StdinInherit => self.stdin = StdinM::Inherit,
            Op::Timeout(t) => {
                let n: f64 = t.parse().unwrap();
                if !n.is_finite() || n <= 0.0 || n.fract() != 0.0 {
                    self.builder_error = true;
                } else {
                    self.timeout = Some(n as u32);
                }
            }
        }
    }
    /// Some(reason) if the configured limits / naming rules refuse this command
    fn invalid(&self, program: &str, caps: &ProcessCaps) -> Option<&'static str> {
        let bad = |s: &str, max: u32, allow_empty: bool, no_eq: bool| {
            (!allow_empty && s.is_empty()) || s.contains('\0') || (no_eq && s.contains('=')) || s.len() > max as usize
        };
        if bad(program, caps.max_program_bytes, false, false) {
            return Some("program");
        }
        if self.args.len() > caps.max_args as usize {
            return Some("argument count");
        }
        if self.env.len() > caps.max_env_pairs as usize {
            return Some("environment pair count");
        }
        let mut total = 0usize;
        for a in &self.args {
            if bad(a, caps.max_arg_bytes, true, false) {
                return Some("argument");
            }
            total += a.len();
        }
        if total > caps.max_total_arg_bytes as usize {
            return Some("total argument bytes");
        }
        if let Some(c) = &self.cwd
            && bad(c, caps.max_cwd_bytes, false, false)
        {
            return Some("cwd");
        }
        let mut etotal = 0usize;
        for (k, v) in &self.env {
            if bad(k, caps.max_env_key_bytes, false, true) {
                return Some("environment key");
            }
            if bad(v, caps.max_env_value_bytes, true, false) {
                return Some("environment value");
            }
            etotal += k.len() + v.len();
        }
        if etotal > caps.max_total_env_bytes as usize {
            return Some("total environment bytes");
        }
        if let StdinM::Text(t) = &self.stdin
            && bad(t, caps.max_stdin_bytes, true, false)
        {
            return Some("stdin text");
        }
        let t = self.timeout.unwrap_or(caps.default_timeout_ms);
        if t == 0 || t > caps.max_timeout_ms {
            return Some("timeout");
        }
        None
    }
}

fn lit(s: &str) -> String {
    let mut o = String::from("\"");
    for c in s.chars() {
        match c {
            '"' => o.push_str("\\\""),
            '\\' => o.push_str("\\\\"),
            '\n' => o.push_str("\\n"),
            '\t' => o.push_str("\\t"),
            c => o.push(c),
        }
    }
    o.push('"');
    o
}

/// placement of the builder calls: 0 = straight line; 1 = each call inside a one-iteration loop
/// body (a frame reset separates it from `run`); 2 = each call inside a function that mutates
/// the outer command
fn script(program: &str, ops: &[Op], placement: u8) -> String {
    if placement == 7 {
        return script_indexed_in_capturing_function(program, ops);
    }
    let mut s = format!("make c get command({})\nc.arg(\"dump\")\n", lit(program));
    for (k, op) in ops.iter().enumerate() {
        match placement {
            1 => s.push_str(&format!("make i{k} get 0\njasi (i{k} small pass 1) start\ni{k} get i{k} add 1\n")),
            2 => s.push_str(&format!("do b{k}() start\n")),
            _ => {}
        }
        s.push_str(&match op {
            Op::Arg(a) => format!("c.arg({})\n", lit(a)),
            Op::ArgNum(n) => format!("c.arg({n})\n"),
            Op::Env(k, v) => format!("c.env({}, {})\n", lit(k), lit(v)),
            Op::Cwd(p) => format!("c.cwd({})\n", lit(p)),
            Op::StdinText(t) => format!("c.stdin_text({})\n", lit(t)),
            Op::StdinNull => "c.stdin_null()\n".to_string(),
            Op::StdinInherit => "c.stdin_inherit()\n".to_string(),
            Op::Timeout(t) => {
                if let Some(neg) = t.strip_prefix('-') {
                    format!("c.timeout_ms(minus {neg})\n")
                } else {
                    format!("c.timeout_ms({t})\n")
                }
            }
        });
        match placement {
            1 => s.push_str("end\n"),
            2 => s.push_str(&format!("end\nb{k}()\n")),
            _ => {}
        }
    }
    // placements 3..=6: the command is a value — configuring a copy (another variable, a parameter,
    // an array element) never changes what the other one runs with
    let pollute = |v: &str| {
        format!(
            "{v}.arg(\"EXTRA\")\n{v}.env(\"VEXTRA\", \"polluted\")\n{v}.stdin_text(\"polluted-stdin\")\n{v}.cwd(\"/\")\n"
        )
    };
    let runner = match placement {
        3 => {
            s.push_str("make d get c\n");
            s.push_str(&pollute("d"));
            "c"
        }
        4 => {
            s.push_str("make d get c\n");
            s.push_str(&pollute("c"));
            "d"
        }
        5 => {
            s.push_str("do spoil(q) start\n");
            s.push_str(&pollute("q"));
            s.push_str("return q\nend\nmake d get spoil(c)\n");
            "c"
        }
        6 => {
            s.push_str("make arr get [c, c]\n");
            s.push_str(&pollute("arr[0]"));
            s.push_str("make d get arr[1]\n");
            "d"
        }
        _ => "c",
    };
    s.push_str(&format!("{runner}.stdout_capture()\nmake r get {runner}.run()\nshout(r.exit_code())\nshout(r.stdout())\n"));
    s
}

/// placement 7: the command is an element of a global list, every builder call goes through
/// `cs[1].<call>` inside a function that captures the list, and that function is called from
/// one holding its own list of the same name (which must stay untouched)
fn script_indexed_in_capturing_function(program: &str, ops: &[Op]) -> String {
    let mut s = format!("make cs get [command(\"/nonexistent-a\"), command({})]\ncs[1].arg(\"dump\")\ndo cfg() start\n", lit(program));
    for op in ops {
        s.push_str(&match op {
            Op::Arg(a) => format!("cs[1].arg({})\n", lit(a)),
            Op::ArgNum(n) => format!("cs[1].arg({n})\n"),
            Op::Env(k, v) => format!("cs[1].env({}, {})\n", lit(k), lit(v)),
            Op::Cwd(p) => format!("cs[1].cwd({})\n", lit(p)),
            Op::StdinText(t) => format!("cs[1].stdin_text({})\n", lit(t)),
            Op::StdinNull => "cs[1].stdin_null()\n".to_string(),
            Op::StdinInherit => "cs[1].stdin_inherit()\n".to_string(),
            Op::Timeout(t) => {
                if let Some(neg) = t.strip_prefix('-') {
                    format!("cs[1].timeout_ms(minus {neg})\n")
                } else {
                    format!("cs[1].timeout_ms({t})\n")
                }
            }
        });
    }
    s.push_str("cs[1].stdout_capture()\nend\n");
    s.push_str("do caller() start\nmake cs get [command(\"/nonexistent-b\"), command(\"/nonexistent-c\")]\ncfg()\nif to say (cs.len() na 99) start shout(\"never\") end\nend\ncaller()\n");
    s.push_str("make r get cs[1].run()\nshout(r.exit_code())\nshout(r.stdout())\n");
    s
}

fn unhex(s: &str) -> Vec<u8> {
    (0..s.len() / 2).map(|i| u8::from_str_radix(&s[2 * i..2 * i + 2], 16).unwrap_or(0)).collect()
}

struct Report {
    argv: Vec<Vec<u8>>,
    env: BTreeMap<Vec<u8>, Vec<u8>>,
    cwd: Vec<u8>,
    stdin: Vec<u8>,
    complete: bool,
}

fn parse_report(text: &[u8]) -> Report {
    let mut r = Report { argv: vec![], env: BTreeMap::new(), cwd: vec![], stdin: vec![], complete: false };
    for line in String::from_utf8_lossy(text).lines() {
        let parts: Vec<&str> = line.split(' ').collect();
        match parts.as_slice() {
            ["A", h] => r.argv.push(unhex(h)),
            ["A"] => r.argv.push(vec![]),
            ["E", k, v] => {
                r.env.insert(unhex(k), unhex(v));
            }
            ["E", k] => {
                r.env.insert(unhex(k), vec![]);
            }
            ["C", h] => r.cwd = unhex(h),
            ["I", h] => r.stdin = unhex(h),
            ["I"] => r.stdin = vec![],
            ["END"] => r.complete = true,
            _ => {}
        }
    }
    r
}

struct Dirs {
    base: PathBuf,
    marker_prefix: PathBuf,
}

fn dirs() -> Dirs {
    let base = crate::util::verif_root().join("target/tmp").join(format!("c15-{}", std::process::id()));
    let _ = std::fs::create_dir_all(base.join("plain"));
    let _ = std::fs::create_dir_all(base.join("with space"));
    let _ = std::fs::create_dir_all(base.join("markers"));
    Dirs { marker_prefix: base.join("markers").join("m"), base }
}

fn markers(d: &Dirs) -> usize {
    std::fs::read_dir(d.base.join("markers")).map(|r| r.count()).unwrap_or(0)
}

fn clear_markers(d: &Dirs) {
    if let Ok(r) = std::fs::read_dir(d.base.join("markers")) {
        for e in r.flatten() {
            let _ = std::fs::remove_file(e.path());
        }
    }
}

type Bad = (String, serde_json::Value);

/// Runs the state on the real code and compares with the model.
fn check_state(ctx: &mut Ctx, d: &Dirs, program: &str, ops: &[Op], caps: ProcessCaps, spawned: &mut u64, refused: &mut u64) -> Result<(), Bad> {
    let mut m = Model::new();
    for op in ops {
        m.apply(op);
    }
    for placement in 0..8u8 {
        if (1..3).contains(&placement) && ops.is_empty() {
            continue;
        }
        // the copy placements multiply the number of children by 2.3: short states only
        if placement >= 3 && ops.len() > 2 {
            continue;
        }
        check_state_placed(ctx, d, program, ops, caps, spawned, refused, &m, placement)
            .map_err(|(c, mut j)| {
                j["placement"] = json!(["straight-line", "each call in a loop body", "each call in a function", "a copy is configured further, the original runs",
                    "the original is configured further, the copy runs", "a parameter copy is configured further, the original runs",
                    "one array element is configured further, the other runs",
                    "indexed receiver inside a function that captures the list, called from a function holding a same-named list"][placement as usize]);
                (c, j)
            })?;
    }
    Ok(())
}

#[allow(clippy::too_many_arguments)]
fn check_state_placed(ctx: &mut Ctx, d: &Dirs, program: &str, ops: &[Op], caps: ProcessCaps, spawned: &mut u64, refused: &mut u64, m: &Model, placement: u8) -> Result<(), Bad> {
    let src = script(program, ops, placement);
    // --- policy: processes forbidden → always denied, nothing spawned
    if !m.builder_error && placement < 3 {
        clear_markers(d);
        ctx.policy = HostPolicy { allow_process: false, process: caps };
        let o = drive::run_pipeline(ctx, &src, M0, RunOpts::default());
        ctx.policy = HostPolicy::default();
        let denied = RuntimeErrorKind::ProcessDenied.as_str();
        if !matches!(&o.end, End::RuntimeError(k) if k == denied) {
            return Err(("not-denied-under-forbidding-policy".into(), json!({"obs": o.show()})));
        }
        if markers(d) != 0 {
            return Err(("child-spawned-under-forbidding-policy".into(), json!({})));
        }
    }
    // --- policy: allowed
    clear_markers(d);
    ctx.policy = HostPolicy { allow_process: true, process: caps };
    let o = drive::run_pipeline(ctx, &src, M0, RunOpts::default());
    ctx.policy = HostPolicy::default();
    if !matches!(o.front, Front::Accepted) {
        return Err(("script-rejected".into(), json!({"obs": o.show()})));
    }
    let spec_invalid = RuntimeErrorKind::ProcessSpecInvalid("").as_str();
    let spawn_failed = RuntimeErrorKind::ProcessSpawnFailed("").as_str();
    let n_markers = markers(d);
    if m.builder_error {
        if !matches!(&o.end, End::RuntimeError(k) if k == spec_invalid) || n_markers != 0 {
            return Err(("bad-timeout-value-not-refused".into(), json!({"obs": o.show(), "markers": n_markers})));
        }
        *refused += 1;
        return Ok(());
    }
    if let Some(why) = m.invalid(program, &caps) {
        if !matches!(&o.end, End::RuntimeError(k) if k == spec_invalid) {
            return Err(("invalid-command-not-refused".into(), json!({"why_invalid": why, "obs": o.show()})));
        }
        if n_markers != 0 {
            return Err(("invalid-command-spawned-a-child".into(), json!({"why_invalid": why})));
        }
        *refused += 1;
        return Ok(());
    }
    // missing working directory: spawn failure, nothing runs
    let cwd_path = m.cwd.as_ref().map(PathBuf::from);
    if let Some(p) = &cwd_path
        && !p.is_dir()
    {
        if !matches!(&o.end, End::RuntimeError(k) if k == spawn_failed) || n_markers != 0 {
            return Err(("missing-cwd-not-a-spawn-failure".into(), json!({"obs": o.show(), "markers": n_markers})));
        }
        *refused += 1;
        return Ok(());
    }
    // valid: exactly one child, which saw exactly the configuration
    if o.end != End::Normal {
        return Err(("valid-command-failed".into(), json!({"obs": o.show()})));
    }
    if n_markers != 1 {
        return Err(("wrong-number-of-children".into(), json!({"markers": n_markers})));
    }
    *spawned += 1;
    let (Some(TV::N(code)), Some(TV::S(out))) = (o.out.first(), o.out.get(1)) else {
        return Err(("unexpected-script-output".into(), json!({"obs": o.show()})));
    };
    if f64::from_bits(*code) != 0.0 {
        return Err(("child-exit-code".into(), json!({"code": f64::from_bits(*code)})));
    }
    let rep = parse_report(out);
    if !rep.complete {
        return Err(("child-report-incomplete".into(), json!({})));
    }
    let mut want_argv: Vec<Vec<u8>> = vec![program.as_bytes().to_vec()];
    want_argv.extend(m.args.iter().map(|a| a.as_bytes().to_vec()));
    if rep.argv != want_argv {
        let show = |v: &Vec<Vec<u8>>| v.iter().map(|a| String::from_utf8_lossy(a).to_string()).collect::<Vec<_>>();
        return Err(("argv-differs".into(), json!({"got": show(&rep.argv), "want": show(&want_argv)})));
    }
    use std::os::unix::ffi::OsStrExt;
    let mut want_env: BTreeMap<Vec<u8>, Vec<u8>> = std::env::vars_os().map(|(k, v)| (k.as_bytes().to_vec(), v.as_bytes().to_vec())).collect();
    for (k, v) in &m.env {
        want_env.insert(k.as_bytes().to_vec(), v.as_bytes().to_vec());
    }
    if rep.env != want_env {
        let diff: Vec<String> = want_env
            .iter()
            .filter(|(k, v)| rep.env.get(*k) != Some(*v))
            .map(|(k, v)| format!("want {}={}", String::from_utf8_lossy(k), String::from_utf8_lossy(v)))
            .chain(rep.env.iter().filter(|(k, _)| !want_env.contains_key(*k)).map(|(k, v)| format!("extra {}={}", String::from_utf8_lossy(k), String::from_utf8_lossy(v))))
            .collect();
        return Err(("environment-differs".into(), json!({"diff": diff})));
    }
    let want_cwd = match &cwd_path {
        Some(p) => std::fs::canonicalize(p).unwrap_or_else(|_| p.clone()),
        None => std::env::current_dir().unwrap(),
    };
    if rep.cwd != want_cwd.as_os_str().as_bytes() {
        return Err(("cwd-differs".into(), json!({"got": String::from_utf8_lossy(&rep.cwd), "want": want_cwd.display().to_string()})));
    }
    let want_in: &[u8] = match &m.stdin {
        StdinM::Text(t) => t.as_bytes(),
        _ => b"",
    };
    if rep.stdin != want_in {
        return Err(("stdin-differs".into(), json!({"got": String::from_utf8_lossy(&rep.stdin), "want": String::from_utf8_lossy(want_in)})));
    }
    Ok(())
}

fn alphabet(d: &Dirs, core: bool) -> Vec<Op> {
    let mut v = Vec::new();
    let strings: &[&str] = if core {
        &["", "a b", "$HOME", "*", "a\nb", "a\0b"]
    } else {
        &["", "a", "a b", "\"q\"", "'", "$HOME", "*", ";ls", "a\nb", "é", "-x", "k=v", "a\0b"]
    };
    for s in strings {
        v.push(Op::Arg((*s).to_string()));
    }
    v.push(Op::ArgNum("1.5".into()));
    let keys: &[&str] = if core { &["K", "A=B"] } else { &["K", "K2", "", "A=B", "a\0"] };
    let vals: &[&str] = if core { &["v1", "v 2"] } else { &["v1", "", "v 2;$X"] };
    for k in keys {
        for val in vals {
            v.push(Op::Env((*k).to_string(), (*val).to_string()));
        }
    }
    v.push(Op::Cwd(d.base.join("plain").display().to_string()));
    v.push(Op::Cwd(d.base.join("with space").display().to_string()));
    v.push(Op::Cwd(d.base.join("missing").display().to_string()));
    if !core {
        v.push(Op::Cwd(String::new()));
    }
    v.push(Op::StdinText("in put\n$X".into()));
    if !core {
        v.push(Op::StdinText("twenty bytes of text".into()));
        // larger than the pipe buffer: the writer thread has to wait for the child
        v.push(Op::StdinText("0123456789".repeat(7_000)));
        v.push(Op::StdinText(String::new()));
        v.push(Op::StdinText("é\0".into()));
    }
    v.push(Op::StdinNull);
    v.push(Op::StdinInherit);
    let max = ProcessCaps::defaults().max_timeout_ms;
    let times: Vec<String> = if core {
        vec!["1000".into(), format!("{}", u64::from(max) + 1)]
    } else {
        vec!["0".into(), "1000".into(), "1.5".into(), "-1".into(), format!("{max}"), format!("{}", u64::from(max) + 1)]
    };
    for t in times {
        v.push(Op::Timeout(t));
    }
    v
}

struct BuilderBfs {
    depth_full: usize,
    depth_core: usize,
}

impl Space for BuilderBfs {
    fn id(&self) -> String {
        format!("builder-bfs-full{}-core{}", self.depth_full, self.depth_core)
    }
    fn size(&self) -> u64 {
        // the alphabet size does not depend on the directories
        let d = Dirs { base: PathBuf::from("/x"), marker_prefix: PathBuf::from("/x/m") };
        (alphabet(&d, false).len() + alphabet(&d, true).len()) as u64
    }
    fn profile(&self) -> Profile {
        Profile::Fast
    }
    fn chunk(&self) -> u64 {
        1
    }
    fn case_timeout_ms(&self) -> u64 {
        1_800_000
    }
    fn describe(&self, i: u64) -> String {
        let d = Dirs { base: PathBuf::from("<tmp>"), marker_prefix: PathBuf::from("<tmp>/m") };
        let full = alphabet(&d, false);
        if (i as usize) < full.len() {
            format!("all builder sequences of length <= {} starting with {:?} (full alphabet)", self.depth_full, full[i as usize])
        } else {
            format!("all builder sequences of length <= {} starting with {:?} (core alphabet)", self.depth_core, alphabet(&d, true)[i as usize - full.len()])
        }
    }
    fn run(&self, ctx: &mut Ctx, i: u64) -> Outcome {
        let d = dirs();
        unsafe { std::env::set_var("VERIF_MARKER", &d.marker_prefix) };
        let full = alphabet(&d, false);
        let (ops, depth, first) = if (i as usize) < full.len() {
            (full.clone(), self.depth_full, full[i as usize].clone())
        } else {
            let core = alphabet(&d, true);
            let f = core[i as usize - full.len()].clone();
            (core, self.depth_core, f)
        };
        let program = vchild().display().to_string();
        let caps = ProcessCaps::defaults();
        let mut seen: HashSet<Model> = HashSet::new();
        let mut queue: VecDeque<Vec<Op>> = VecDeque::new();
        queue.push_back(vec![first]);
        let (mut states, mut transitions, mut spawned, mut refused) = (0u64, 0u64, 0u64, 0u64);
        let mut sample = None;
        while let Some(path) = queue.pop_front() {
            let mut m = Model::new();
            for op in &path {
                m.apply(op);
            }
            transitions += 1;
            if !seen.insert(m.clone()) {
                continue;
            }
            states += 1;
            if let Err((class, detail)) = check_state(ctx, &d, &program, &path, caps, &mut spawned, &mut refused) {
                let _ = std::fs::remove_dir_all(&d.base);
                let input = format!("{path:?}").replace(&d.base.display().to_string(), "<tmp>");
                return Outcome {
                    nontrivial: true,
                    class: "violation".into(),
                    violations: vec![Violation::new(class, input, detail)],
                    counters: vec![("states", states), ("transitions", transitions), ("traces_validated_against_impl", states)],
                    sample: None,
                };
            }
            if sample.is_none() && path.len() >= 2 {
                sample = Some(json!(format!("{path:?}").replace(&d.base.display().to_string(), "<tmp>")));
            }
            if path.len() < depth && !m.builder_error {
                for op in &ops {
                    let mut p = path.clone();
                    p.push(op.clone());
                    queue.push_back(p);
                }
            }
        }
        let _ = std::fs::remove_dir_all(&d.base);
        Outcome {
            nontrivial: spawned > 0 && refused > 0,
            class: "explored".into(),
            violations: vec![],
            counters: vec![("states", states), ("transitions", transitions), ("traces_validated_against_impl", states), ("children_spawned_and_verified", spawned), ("states_refused", refused)],
            sample,
        }
    }
}

/// every cap set small, probed at cap-1, cap, cap+1
struct Limits;

fn limit_cases() -> Vec<(&'static str, ProcessCaps, Vec<Vec<Op>>)> {
    let base = ProcessCaps::defaults();
    let a = |n: usize| Op::Arg("x".repeat(n));
    let mut v: Vec<(&'static str, ProcessCaps, Vec<Vec<Op>>)> = Vec::new();
    // note: the model's first argument is always "dump" (4 bytes)
    v.push(("max_args=3", ProcessCaps { max_args: 3, ..base }, vec![vec![a(1)], vec![a(1), a(1)], vec![a(1), a(1), a(1)]]));
    v.push(("max_arg_bytes=5", ProcessCaps { max_arg_bytes: 5, ..base }, vec![vec![a(4)], vec![a(5)], vec![a(6)], vec![a(0)]]));
    v.push(("max_total_arg_bytes=10", ProcessCaps { max_total_arg_bytes: 10, ..base }, vec![vec![a(5)], vec![a(6)], vec![a(7)], vec![a(3), a(3)], vec![a(3), a(4)], vec![a(2), a(2), a(2)], vec![a(2), a(2), a(3)]]));
    let e = |k: &str, val: &str| Op::Env(k.to_string(), val.to_string());
    v.push(("max_env_pairs=2", ProcessCaps { max_env_pairs: 2, ..base }, vec![vec![e("A", "1")], vec![e("A", "1"), e("B", "2")], vec![e("A", "1"), e("B", "2"), e("C", "3")], vec![e("A", "1"), e("B", "2"), e("A", "3")]]));
    v.push(("max_env_key_bytes=3", ProcessCaps { max_env_key_bytes: 3, ..base }, vec![vec![e("AB", "v")], vec![e("ABC", "v")], vec![e("ABCD", "v")]]));
    v.push(("max_env_value_bytes=3", ProcessCaps { max_env_value_bytes: 3, ..base }, vec![vec![e("K", "12")], vec![e("K", "123")], vec![e("K", "1234")], vec![e("K", "")]]));
    v.push(("max_total_env_bytes=8", ProcessCaps { max_total_env_bytes: 8, ..base }, vec![vec![e("KEY", "1234")], vec![e("KEY", "12345")], vec![e("KEY", "123456")], vec![e("A", "123"), e("B", "123")], vec![e("A", "123"), e("B", "1234")], vec![e("A", "1"), e("B", "1"), e("C", "12")], vec![e("A", "1"), e("B", "1"), e("C", "123")]]));
    let t = |n: usize| Op::StdinText("s".repeat(n));
    v.push(("max_stdin_bytes=4", ProcessCaps { max_stdin_bytes: 4, ..base }, vec![vec![t(3)], vec![t(4)], vec![t(5)]]));
    v.push(("max_timeout_ms=50000", ProcessCaps { max_timeout_ms: 50_000, default_timeout_ms: 40_000, ..base }, vec![vec![Op::Timeout("49999".into())], vec![Op::Timeout("50000".into())], vec![Op::Timeout("50001".into())]]));
    v.push(("default_timeout_above_max", ProcessCaps { max_timeout_ms: 50_000, default_timeout_ms: 50_001, ..base }, vec![vec![], vec![Op::Timeout("1000".into())]]));
    // the real defaults at their real boundaries
    let many = |n: usize| (0..n).map(|_| a(1)).collect::<Vec<_>>();
    v.push(("default max_args", base, vec![many(254), many(255), many(256)]));
    v.push(("default max_arg_bytes", base, vec![vec![a(65_535)], vec![a(65_536)], vec![a(65_537)]]));
    v
}

impl Space for Limits {
    fn id(&self) -> String {
        "limits-at-cap-boundaries".into()
    }
    fn size(&self) -> u64 {
        limit_cases().len() as u64 + 2
    }
    fn profile(&self) -> Profile {
        Profile::Fast
    }
    fn chunk(&self) -> u64 {
        1
    }
    fn case_timeout_ms(&self) -> u64 {
        600_000
    }
    fn describe(&self, i: u64) -> String {
        let lc = limit_cases();
        match lc.get(i as usize) {
            Some((name, _, paths)) => format!("{name}: {} probes around the cap", paths.len()),
            None => format!("program / cwd length caps, probe set {}", i as usize - lc.len()),
        }
    }
    fn run(&self, ctx: &mut Ctx, i: u64) -> Outcome {
        let d = dirs();
        unsafe { std::env::set_var("VERIF_MARKER", &d.marker_prefix) };
        let program = vchild().display().to_string();
        let lc = limit_cases();
        let (mut spawned, mut refused, mut states) = (0u64, 0u64, 0u64);
        let mut fail = None;
        if let Some((name, caps, paths)) = lc.get(i as usize) {
            for p in paths {
                states += 1;
                if let Err((class, detail)) = check_state(ctx, &d, &program, p, *caps, &mut spawned, &mut refused) {
                    let shown: Vec<String> = p.iter().map(|o| { let s = format!("{o:?}"); if s.len() > 60 { format!("{}…({} chars)", &s[..40], s.len()) } else { s } }).collect();
                    fail = Some(Violation::new(class, format!("{name}: {shown:?}"), detail));
                    break;
                }
            }
        } else if i as usize == lc.len() {
            // program name length: cap-1, cap, cap+1 relative to the real program path
            let len = program.len() as u32;
            for (cap, _ok) in [(len + 1, true), (len, true), (len - 1, false)] {
                states += 1;
                let caps = ProcessCaps { max_program_bytes: cap, ..ProcessCaps::defaults() };
                if let Err((class, detail)) = check_state(ctx, &d, &program, &[], caps, &mut spawned, &mut refused) {
                    fail = Some(Violation::new(class, format!("max_program_bytes={cap} with a {len}-byte program"), detail));
                    break;
                }
            }
            // empty / NUL program names
            for prog in ["", "a\0b"] {
                states += 1;
                if let Err((class, detail)) = check_state(ctx, &d, prog, &[], ProcessCaps::defaults(), &mut spawned, &mut refused) {
                    fail = Some(Violation::new(class, format!("program {prog:?}"), detail));
                    break;
                }
            }
        } else {
            let cwd = d.base.join("plain").display().to_string();
            let len = cwd.len() as u32;
            for cap in [len + 1, len, len - 1] {
                states += 1;
                let caps = ProcessCaps { max_cwd_bytes: cap, ..ProcessCaps::defaults() };
                if let Err((class, detail)) = check_state(ctx, &d, &program, &[Op::Cwd(cwd.clone())], caps, &mut spawned, &mut refused) {
                    fail = Some(Violation::new(class, format!("max_cwd_bytes={cap} with a {len}-byte cwd"), detail));
                    break;
                }
            }
        }
        let _ = std::fs::remove_dir_all(&d.base);
        Outcome {
            nontrivial: spawned > 0 && refused > 0,
            class: if fail.is_some() { "violation".into() } else { "explored".into() },
            violations: fail.into_iter().collect(),
            counters: vec![("states", states), ("transitions", states), ("traces_validated_against_impl", states), ("children_spawned_and_verified", spawned), ("states_refused", refused)],
            sample: None,
        }
    }
}

pub fn spaces(tier: Tier) -> Vec<Box<dyn Space>> {
    let t = tier == Tier::Thorough;
    vec![Box::new(BuilderBfs { depth_full: if t { 3 } else { 2 }, depth_core: if t { 5 } else { 4 } }), Box::new(Limits)]
}
