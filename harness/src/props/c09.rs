//! C09 — static rules enforced exactly: ill-formed rejected, well-formed accepted.
//! E1: (1) every program of the C04 scope micro-language: accepted ⇔ the independent
//! reference scope checker finds no broken rule; (2) every single-rule violation of a fixed
//! catalogue injected into every host context.

use naijascript::diagnostics::AsStr;
use naijascript::resolver::SemanticError;
use naijascript::syntax::parser::SyntaxError;
use serde_json::json;

use crate::ast::*;
use crate::drive::{self, Ctx, End, Front, M0, RunOpts};
use crate::engine::{Outcome, Profile, PropMeta, Space, Tier, Violation};
use crate::gen_prog::Gen;
use crate::refsem::{self, Rule};

pub fn meta(_tier: Tier) -> PropMeta {
    PropMeta {
        id: "C09",
        level: "exploration",
        rule: "(1) all forests of the C04 scope micro-language (declare/assign/read/placeholder of a,b; block; \
               loop; definitions and calls of f and g at any position): the real front end accepts iff the \
               reference scope checker finds no rule broken, and a rejection carries the category of one of the \
               broken rules; (2) a catalogue of ~170 single-rule violations (undeclared use / assignment / call, \
               out-of-block use, arity of user functions, every global and method, comot/next outside a loop, \
               return outside a function, duplicate function / parameter, reserved and built-in names, literal- \
               and declared-variable-typed operator / condition / index / method / argument errors) and of valid \
               twins, each injected into 11 host contexts (top level, block, if, else, loop, function, function in \
               loop, loop in function, function in function, dead code, never-called function) and 3 expression \
               embeddings. Non-trivial = a rule was broken (rejected side) or the program ran (accepted side); \
               distinct by program text"
            .into(),
        assumptions: vec![
            "only unambiguous rules are demanded; combinations the documentation leaves open (e.g. ordering a string against null, comparing arrays) must only be consistent: if accepted they must not crash".into(),
            "for a missing method either Type mismatch or Undeclared identifier names the rule; for comot/next/return misuse the implementation's category string is not prescribed".into(),
        ],
        explanation: String::new(),
    }
}

pub fn spaces(tier: Tier) -> Vec<Box<dyn Space>> {
    let n = if tier == Tier::Thorough { 6 } else { 5 };
    vec![
        Box::new(ScopeAccept { generator: crate::props::c04::forests(n, 3), n }),
        Box::new(Injections { cases: injection_cases() }),
    ]
}

// ---------------------------------------------------------------------------------------
// (1) scope rules on the forest space
// ---------------------------------------------------------------------------------------

struct ScopeAccept {
    generator: Gen<Vec<S>>,
    n: usize,
}

fn rule_categories(r: &Rule) -> Vec<&'static str> {
    let sem = |e: SemanticError| e.as_str();
    match r {
        Rule::UndeclaredVar(_) | Rule::UndeclaredFunc(_) | Rule::AssignUndeclared(_) => {
            vec![sem(SemanticError::UndeclaredIdentifier), sem(SemanticError::AssignmentToUndeclared)]
        }
        Rule::Arity(_) => vec![sem(SemanticError::FunctionCallArity)],
        Rule::DuplicateFunction(_) | Rule::DuplicateParam(_) => vec![sem(SemanticError::DuplicateIdentifier)],
        Rule::ReservedName(_) => vec![sem(SemanticError::ReservedKeyword), SyntaxError::ReservedKeyword.as_str()],
        // category string for control-flow misuse is not prescribed
        Rule::BreakOutsideLoop | Rule::NextOutsideLoop | Rule::ReturnOutsideFunction => vec![],
    }
}

impl Space for ScopeAccept {
    fn id(&self) -> String {
        format!("scope-forests-le{}", self.n)
    }
    fn size(&self) -> u64 {
        self.generator.count
    }
    fn chunk(&self) -> u64 {
        8192
    }
    fn describe(&self, i: u64) -> String {
        print(&self.generator.nth(i))
    }
    fn run(&self, ctx: &mut Ctx, i: u64) -> Outcome {
        let prog = self.generator.nth(i);
        let res = refsem::resolve(&prog);
        let text = print(&prog);
        let (front, _) = drive::run_front(ctx, &text);
        match (&front, res.rules.is_empty()) {
            (Front::Panic(m), _) => Outcome::bad("panic", Violation::new(format!("front-end-panic: {m}"), text, json!(null))),
            (Front::Accepted, true) => Outcome::ok("accepted:well-formed", false),
            (Front::Accepted, false) => Outcome::bad(
                "differs",
                Violation::new("accepted-ill-formed", text, json!({"broken_rules": format!("{:?}", res.rules)})),
            ),
            (Front::Rejected(d), true) => Outcome::bad(
                "differs",
                Violation::new(
                    "rejected-well-formed",
                    text,
                    json!({"diagnostics": d.iter().map(|x| format!("{}: {}", x.stage, x.message)).collect::<Vec<_>>()}),
                ),
            ),
            (Front::Rejected(d), false) => {
                let mut wanted: Vec<&str> = Vec::new();
                let mut unconstrained = false;
                for r in &res.rules {
                    let c = rule_categories(r);
                    if c.is_empty() {
                        unconstrained = true;
                    }
                    wanted.extend(c);
                }
                if !unconstrained && !d.iter().any(|x| wanted.contains(&x.message.as_str())) {
                    return Outcome::bad(
                        "differs",
                        Violation::new(
                            "rejection-names-wrong-category",
                            text,
                            json!({"broken_rules": format!("{:?}", res.rules),
                                   "diagnostics": d.iter().map(|x| x.message.clone()).collect::<Vec<_>>()}),
                        ),
                    );
                }
                Outcome::ok("rejected:ill-formed", true)
            }
        }
    }
}

// ---------------------------------------------------------------------------------------
// (2) injection catalogue
// ---------------------------------------------------------------------------------------

#[derive(Clone, Debug, PartialEq)]
enum Expect {
    Valid,
    /// rejected, with one of these categories (empty = any error)
    Reject(Vec<&'static str>),
    /// rejected unless the host puts the snippet directly in a loop body
    RejectUnlessInLoop,
    RejectUnlessInFunc,
    /// documentation silent: accepted or rejected, but must not crash
    Consistent,
}

#[derive(Clone)]
struct Case {
    text: String,
    expect: Expect,
    what: String,
}

struct Host {
    name: &'static str,
    pre: &'static str,
    post: &'static str,
    in_loop: bool,
    in_func: bool,
}

const HOSTS: &[Host] = &[
    Host { name: "top", pre: "", post: "", in_loop: false, in_func: false },
    Host { name: "block", pre: "start ", post: " end", in_loop: false, in_func: false },
    Host { name: "if", pre: "if to say (true) start ", post: " end", in_loop: false, in_func: false },
    Host { name: "else", pre: "if to say (false) start shout(0) end if not so start ", post: " end", in_loop: false, in_func: false },
    Host { name: "loop", pre: "make hi get 0 jasi (hi small pass 1) start hi get hi add 1 ", post: " end", in_loop: true, in_func: false },
    Host { name: "func", pre: "do hf() start ", post: " end hf()", in_loop: false, in_func: true },
    Host { name: "func-in-loop", pre: "make hi get 0 jasi (hi small pass 1) start hi get hi add 1 do hf() start ", post: " end hf() end", in_loop: false, in_func: true },
    Host { name: "loop-in-func", pre: "do hf() start make hi get 0 jasi (hi small pass 1) start hi get hi add 1 ", post: " end end hf()", in_loop: true, in_func: true },
    Host { name: "func-in-func", pre: "do ho() start do hin() start ", post: " end hin() end ho()", in_loop: false, in_func: true },
    Host { name: "dead-code", pre: "do hf() start return 1 ", post: " end hf()", in_loop: false, in_func: true },
    Host { name: "uncalled-func", pre: "do hu() start ", post: " end", in_loop: false, in_func: true },
];

fn injection_cases() -> Vec<Case> {
    let sem = |e: SemanticError| e.as_str();
    let undecl = vec![sem(SemanticError::UndeclaredIdentifier), sem(SemanticError::AssignmentToUndeclared)];
    let arity = vec![sem(SemanticError::FunctionCallArity)];
    let dup = vec![sem(SemanticError::DuplicateIdentifier)];
    let reserved = vec![sem(SemanticError::ReservedKeyword), SyntaxError::ReservedKeyword.as_str()];
    let ty = vec![sem(SemanticError::TypeMismatch)];
    let ty_or_undecl = vec![sem(SemanticError::TypeMismatch), sem(SemanticError::UndeclaredIdentifier)];

    // statement snippets
    let mut stmts: Vec<(String, Expect)> = Vec::new();
    let mut st = |s: &str, e: Expect| stmts.push((s.to_string(), e));
    st("shout(nope)", Expect::Reject(undecl.clone()));
    st("shout(\"x{nope}y\")", Expect::Reject(undecl.clone()));
    st("start make q get 1 end shout(q)", Expect::Reject(undecl.clone()));
    st("make q get 0 jasi (q small pass 1) start q get q add 1 make w get 1 end shout(w)", Expect::Reject(undecl.clone()));
    st("if to say (true) start make q get 1 end shout(q)", Expect::Reject(undecl.clone()));
    st("do pf(pp) start end pf(1) shout(pp)", Expect::Reject(undecl.clone()));
    st("if to say (false) start end if not so start make q get 1 end shout(q)", Expect::Reject(undecl.clone()));
    st("if to say (true) start make q get 1 end if not so start shout(q) end", Expect::Reject(undecl.clone()));
    st("do bf() start make q get 1 end bf() shout(q)", Expect::Reject(undecl.clone()));
    st("do bf() start make q get 1 end bf() q get 2", Expect::Reject(undecl.clone()));
    st("start start make q get 1 end shout(q) end", Expect::Reject(undecl.clone()));
    st("start make q get 1 start shout(q) end end", Expect::Valid);
    st("do bf(pp) start do bg() start shout(pp) end bg() end bf(1)", Expect::Valid);
    st("nope get 1", Expect::Reject(undecl.clone()));
    st("start make q get 1 end q get 2", Expect::Reject(undecl.clone()));
    st("nofn()", Expect::Reject(undecl.clone()));
    st("start do lf() start end end lf()", Expect::Reject(undecl.clone()));
    st("do of() start do nf() start end end nf()", Expect::Reject(undecl.clone()));
    st("do fa(x) start end fa()", Expect::Reject(arity.clone()));
    st("do fa(x) start end fa(1, 2)", Expect::Reject(arity.clone()));
    st("do fz() start end fz(1)", Expect::Reject(arity.clone()));
    for g in ["shout", "typeof", "to_string", "read_line", "command"] {
        st(&format!("make r0 get {g}()"), Expect::Reject(arity.clone()));
        st(&format!("make r0 get {g}(\"a\", \"b\")"), Expect::Reject(arity.clone()));
    }
    for (recv, m, few, many) in [
        ("\"s\"", "len", None, Some("1")),
        ("\"s\"", "find", Some(""), Some("\"a\", \"b\"")),
        ("\"s\"", "slice", Some("1"), Some("1, 2, 3")),
        ("\"s\"", "replace", Some("\"a\""), Some("\"a\", \"b\", \"c\"")),
        ("\"s\"", "split", Some(""), Some("\"a\", \"b\"")),
        ("\"s\"", "trim", None, Some("1")),
        ("\"s\"", "to_uppercase", None, Some("1")),
        ("\"s\"", "to_number", None, Some("1")),
        ("[1]", "len", None, Some("1")),
        ("[1]", "join", Some(""), Some("\"a\", \"b\"")),
        ("(1)", "abs", None, Some("2")),
        ("2.5", "round", None, Some("2")),
    ] {
        if let Some(f) = few {
            st(&format!("shout({recv}.{m}({f}))"), Expect::Reject(arity.clone()));
        }
        if let Some(mm) = many {
            st(&format!("shout({recv}.{m}({mm}))"), Expect::Reject(arity.clone()));
        }
    }
    st("make ar get [1] ar.push()", Expect::Reject(arity.clone()));
    st("make ar get [1] ar.push(1, 2)", Expect::Reject(arity.clone()));
    st("make ar get [1] ar.pop(1)", Expect::Reject(arity.clone()));
    st("make ar get [1] ar.reverse(1)", Expect::Reject(arity.clone()));
    st("comot", Expect::RejectUnlessInLoop);
    st("next", Expect::RejectUnlessInLoop);
    st("if to say (true) start comot end", Expect::RejectUnlessInLoop);
    st("start next end", Expect::RejectUnlessInLoop);
    // context must be restored after a loop / a function definition
    st("make q get 0 jasi (q small pass 0) start end comot", Expect::RejectUnlessInLoop);
    st("do lf2() start end next", Expect::RejectUnlessInLoop);
    st("do rf2() start return 1 end return 2", Expect::RejectUnlessInFunc);
    st("do rf3() start do rf4() start end end rf3() return", Expect::RejectUnlessInFunc);
    st("return", Expect::RejectUnlessInFunc);
    st("return 1", Expect::RejectUnlessInFunc);
    st("if to say (true) start return 2 end", Expect::RejectUnlessInFunc);
    st("do df() start end do df() start end", Expect::Reject(dup.clone()));
    st("do df() start end do df(x) start end df()", Expect::Reject(dup.clone()));
    st("do dp(x, x) start end", Expect::Reject(dup.clone()));
    st("do dp(x, y, x) start end", Expect::Reject(dup.clone()));
    for g in ["shout", "typeof", "to_string", "read_line", "command"] {
        st(&format!("make {g} get 1"), Expect::Reject(reserved.clone()));
        st(&format!("do {g}() start end"), Expect::Reject(reserved.clone()));
        st(&format!("do rp({g}) start end"), Expect::Reject(reserved.clone()));
    }
    for k in ["make", "get", "add", "jasi", "start", "end", "comot", "na", "pass", "true", "null", "do", "return", "not"] {
        st(&format!("make {k} get 1"), Expect::Reject(reserved.clone()));
        st(&format!("do {k}() start end"), Expect::Reject(vec![]));
        st(&format!("do rk({k}) start end"), Expect::Reject(vec![]));
    }
    // conditions
    for c in ["1", "\"s\"", "[1]", "1 add 1", "\"a\" add \"b\""] {
        st(&format!("if to say ({c}) start end"), Expect::Reject(ty.clone()));
        st(&format!("jasi ({c}) start comot end"), Expect::Reject(ty.clone()));
    }
    for c in ["true", "null", "not null", "1 na 1", "true and null"] {
        st(&format!("if to say ({c}) start end"), Expect::Valid);
    }
    // through a declared variable
    st("make vn get 1 if to say (vn) start end", Expect::Reject(ty.clone()));
    st("make vs get \"a\" jasi (vs) start comot end", Expect::Reject(ty.clone()));
    st("make vb get true if to say (vb) start end", Expect::Valid);
    // valid statement twins
    st("make q get 1 shout(q)", Expect::Valid);
    st("make q get 1 start q get 2 end shout(q)", Expect::Valid);
    st("do fa(x) start end fa(1)", Expect::Valid);
    st("fwd() do fwd() start end", Expect::Valid);
    st("do outer2() start do inner2() start end inner2() end outer2()", Expect::Valid);
    st("make q get 0 jasi (q small pass 1) start q get q add 1 next end", Expect::Valid);
    st("make q get 0 jasi (true) start comot end", Expect::Valid);
    st("do rf() start return end rf()", Expect::Valid);
    st("make sh get 1 start make sh get 2 end shout(sh)", Expect::Valid);
    // operands typed only at run time (parameters, elements, pop() results) under unary
    // operators and `add`, used further in a typed position
    st("do dy1(p) start return minus p add 1 end shout(dy1(2))", Expect::Valid);
    st("do dy2(p) start if to say (not p and true) start shout(1) end end dy2(false)", Expect::Valid);
    st("do dy3(a9, b9) start make c9 get a9 add b9 return c9 minus 1 end shout(dy3(2, 3))", Expect::Valid);
    st("do dy4(p) start make c9 get p add 1 return c9.len() end shout(dy4(\"a\"))", Expect::Valid);
    st("do dy5(p) start return (p add p).len() end shout(dy5(\"a\"))", Expect::Valid);
    st("make ar9 get [2, true] shout(minus ar9[0] add 1) shout(not ar9[1] or true)", Expect::Valid);
    st("make ar9 get [2] shout(minus ar9.pop() times 3)", Expect::Valid);
    // a function's signature is inferred from its own parameters and locals, not from
    // same-named variables of enclosing scopes
    st("make ox9 get 1 start do fo9(ox9) start return ox9 end make so9 get fo9(\"abc\") shout(so9.len()) end", Expect::Valid);
    st("make oy9 get 1 start do go9() start make oy9 get \"st\" return oy9 end shout(go9().len()) end shout(oy9)", Expect::Valid);
    st("make oz9 get \"s\" start do ho9(oz9) start return oz9 end shout(ho9(3) minus 1) end shout(oz9)", Expect::Valid);
    // ... nor from an outer variable when the defining block declares its own (before or after the definition)
    st("make bv9 get \"outer\" start make bv9 get 5 do fb9() start return bv9 end shout(fb9() minus 1) end shout(bv9)", Expect::Valid);
    st("make bw9 get \"outer\" start do fc9() start return bw9 end make bw9 get 5 shout(fc9() minus 1) end shout(bw9)", Expect::Valid);
    st("make bx9 get null do outer9() start make bx9 get [1] do inner9() start return bx9 end make q9 get inner9() q9.push(2) return q9 end shout(outer9())", Expect::Valid);
    // ... nor through an outer function when the body defines its own of the same name
    st("do lab9() start return \"root\" end do use9() start do lab9() start return 5 end return lab9() end shout(use9() minus 1) shout(lab9())", Expect::Valid);
    // a function body is not typed from what an outer variable is where the definition stands:
    // the variable may be re-declared or re-assigned with another type before the call
    st("make da9 get 0 do de9() start return da9.len() end make da9 get [\"a\", \"b\"] shout(de9())", Expect::Valid);
    st("make db9 get \"s\" do df9() start return db9 minus 1 end make db9 get 5 shout(df9())", Expect::Valid);
    st("make dc9 get 1 do dg9() start if to say (dc9) start return 1 end return 0 end dc9 get true shout(dg9())", Expect::Valid);
    // a function that can fall off its end returns null there
    st("do fe9(a9) start if to say (a9 pass 10) start return 1 end end if to say (not fe9(5)) start shout(1) end", Expect::Valid);
    st("do ff9(a9) start if to say (a9 pass 10) start return true end end shout(ff9(5) or true)", Expect::Valid);
    // a variable declared without a value has no declared type
    st("make ux9 ux9 get 5 shout(ux9 minus 1)", Expect::Valid);
    st("make un9 get null un9 get [1] un9.push(2) shout(un9[0])", Expect::Valid);
    st("make uy9 uy9 get \"abc\" shout(uy9.len())", Expect::Valid);

    // expression snippets (embedded three ways)
    let mut exprs: Vec<(String, Expect)> = Vec::new();
    let mut ex = |s: &str, e: Expect| exprs.push((s.to_string(), e));
    let bad_operands = ["\"a\"", "true", "[1]", "null"];
    for op in ["minus", "times", "divide", "mod"] {
        for o in bad_operands {
            ex(&format!("1 {op} {o}"), Expect::Reject(ty.clone()));
            ex(&format!("{o} {op} 1"), Expect::Reject(ty.clone()));
        }
        ex(&format!("4 {op} 2"), Expect::Valid);
    }
    for o in ["true", "[1]", "null"] {
        ex(&format!("1 add {o}"), Expect::Reject(ty.clone()));
        ex(&format!("{o} add 1"), Expect::Reject(ty.clone()));
        // string with boolean / null / array: the documentation does not say
        ex(&format!("\"a\" add {o}"), Expect::Consistent);
    }
    ex("true add false", Expect::Reject(ty.clone()));
    ex("1 add 2", Expect::Valid);
    ex("\"a\" add \"b\"", Expect::Valid);
    ex("\"a\" add 1", Expect::Valid);
    ex("1 add \"a\"", Expect::Valid);
    for cmp in ["na", "pass", "small pass"] {
        ex(&format!("1 {cmp} \"a\""), Expect::Reject(ty.clone()));
        ex(&format!("\"a\" {cmp} 1"), Expect::Reject(ty.clone()));
        ex(&format!("true {cmp} 1"), Expect::Reject(ty.clone()));
        ex(&format!("\"a\" {cmp} false"), Expect::Reject(ty.clone()));
        ex(&format!("1 {cmp} 2"), Expect::Valid);
        ex(&format!("\"a\" {cmp} \"b\""), Expect::Valid);
        ex(&format!("true {cmp} false"), Expect::Valid);
        ex(&format!("null {cmp} null"), Expect::Valid);
        ex(&format!("null {cmp} 1"), if cmp == "na" { Expect::Valid } else { Expect::Consistent });
        ex(&format!("[1] {cmp} [1]"), Expect::Consistent);
    }
    for l in ["and", "or"] {
        ex(&format!("1 {l} true"), Expect::Reject(ty.clone()));
        ex(&format!("true {l} \"a\""), Expect::Reject(ty.clone()));
        ex(&format!("[1] {l} false"), Expect::Reject(ty.clone()));
        ex(&format!("true {l} false"), Expect::Valid);
        ex(&format!("null {l} true"), Expect::Valid);
    }
    for o in ["1", "\"s\"", "[1]"] {
        ex(&format!("not {o}"), Expect::Reject(ty.clone()));
    }
    ex("not true", Expect::Valid);
    ex("not null", Expect::Valid);
    for o in ["\"a\"", "true", "[1]", "null"] {
        ex(&format!("minus {o}"), Expect::Reject(ty.clone()));
    }
    ex("minus 1", Expect::Valid);
    for b in ["1", "\"s\"", "true", "null", "2.5"] {
        ex(&format!("{b}[0]"), Expect::Reject(ty.clone()));
    }
    for i in ["\"a\"", "true", "null", "[0]"] {
        ex(&format!("[1, 2][{i}]"), Expect::Reject(ty.clone()));
    }
    ex("[1, 2][0]", Expect::Valid);
    ex("[[1], 2][0][0]", Expect::Valid);
    for (r, m) in [
        ("\"s\"", "push(1)"), ("\"s\"", "abs()"), ("\"s\"", "join(\"a\")"), ("(1)", "len()"), ("(1)", "trim()"),
        ("[1]", "abs()"), ("[1]", "find(\"a\")"), ("[1]", "to_uppercase()"), ("true", "len()"), ("null", "len()"),
        ("\"s\"", "nosuch()"), ("[1]", "nosuch()"), ("2.5", "nosuch()"), ("command(\"x\")", "len()"), ("command(\"x\")", "stdout()"),
    ] {
        ex(&format!("{r}.{m}"), Expect::Reject(ty_or_undecl.clone()));
    }
    ex("\"s\".len()", Expect::Valid);
    ex("[1].len()", Expect::Valid);
    ex("(1).abs()", Expect::Valid);
    ex("2.5.floor()", Expect::Valid);
    ex("[1].join(1)", Expect::Reject(ty.clone()));
    ex("[1].join(true)", Expect::Reject(ty.clone()));
    ex("[1].join(\",\")", Expect::Valid);
    ex("command(1)", Expect::Reject(ty.clone()));
    ex("command([1])", Expect::Reject(ty.clone()));
    ex("typeof(command(\"x\"))", Expect::Valid);
    ex("command(\"x\") add 1", Expect::Reject(ty.clone()));
    // through declared variables
    let mut exv: Vec<(String, String, Expect)> = Vec::new();
    let mut exd = |pre: &str, e: &str, x: Expect| exv.push((pre.to_string(), e.to_string(), x));
    exd("make vs get \"a\"", "vs minus 1", Expect::Reject(ty.clone()));
    exd("make vs get \"a\"", "vs.abs()", Expect::Reject(ty_or_undecl.clone()));
    exd("make vs get \"a\"", "vs[0]", Expect::Reject(ty.clone()));
    exd("make vs get \"a\"", "not vs", Expect::Reject(ty.clone()));
    exd("make vs get \"a\"", "vs add 1", Expect::Valid);
    exd("make vn get 1", "vn.len()", Expect::Reject(ty_or_undecl.clone()));
    exd("make vn get 1", "vn[0]", Expect::Reject(ty.clone()));
    exd("make vn get 1", "vn and true", Expect::Reject(ty.clone()));
    exd("make vn get 1", "vn na \"1\"", Expect::Reject(ty.clone()));
    exd("make vn get 1", "vn times 2", Expect::Valid);
    exd("make vb get true", "vb add 1", Expect::Reject(ty.clone()));
    exd("make vb get true", "minus vb", Expect::Reject(ty.clone()));
    exd("make vb get true", "vb pass 1", Expect::Reject(ty.clone()));
    exd("make vb get true", "vb and false", Expect::Valid);
    exd("make va get [1]", "va minus 1", Expect::Reject(ty.clone()));
    exd("make va get [1]", "va[\"k\"]", Expect::Reject(ty.clone()));
    exd("make va get [1]", "va.trim()", Expect::Reject(ty_or_undecl.clone()));
    exd("make va get [1]", "va[0] add 1", Expect::Valid);
    exd("make vc get command(\"x\")", "vc add 1", Expect::Reject(ty.clone()));
    exd("make vc get command(\"x\")", "vc.len()", Expect::Reject(ty_or_undecl.clone()));
    // re-declaration changes the declared type
    exd("make vt get 1 make vt get \"s\"", "vt minus 1", Expect::Reject(ty.clone()));
    exd("make vt get \"s\" make vt get 1", "vt minus 1", Expect::Valid);

    // statement-level builder argument types
    let mut more: Vec<(String, Expect)> = Vec::new();
    for (m, arg, ok) in [
        ("cwd", "1", false), ("cwd", "\"/tmp\"", true), ("env", "1, \"v\"", false), ("env", "\"K\", 1", true),
        ("timeout_ms", "\"fast\"", false), ("timeout_ms", "100", true), ("arg", "1", true), ("stdin_text", "1", true),
    ] {
        more.push((format!("make pc get command(\"x\") pc.{m}({arg})"), if ok { Expect::Valid } else { Expect::Reject(ty.clone()) }));
    }
    more.push(("command(\"echo\").arg(\"hello\")".into(), Expect::Reject(ty.clone())));

    let mut cases = Vec::new();
    let embed = |e: &str| -> Vec<String> {
        vec![format!("shout({e})"), format!("make hv get [{e}]"), format!("do hid(p) start return p end make hw get hid({e})")]
    };
    let mut all_stmts: Vec<(String, Expect, String)> = Vec::new();
    for (s, e) in stmts.into_iter().chain(more) {
        all_stmts.push((s.clone(), e, s));
    }
    for (e, x) in exprs {
        for s in embed(&e) {
            all_stmts.push((s, x.clone(), e.clone()));
        }
    }
    for (pre, e, x) in exv {
        for s in embed(&e) {
            all_stmts.push((format!("{pre} {s}"), x.clone(), format!("{pre}; {e}")));
        }
    }
    for (s, x, what) in all_stmts {
        for h in HOSTS {
            let expect = match &x {
                Expect::RejectUnlessInLoop => {
                    if h.in_loop { Expect::Valid } else { Expect::Reject(vec![]) }
                }
                Expect::RejectUnlessInFunc => {
                    if h.in_func { Expect::Valid } else { Expect::Reject(vec![]) }
                }
                o => o.clone(),
            };
            cases.push(Case {
                text: format!("make hx get 1 shout(hx) {}{}{} shout(\"post\")", h.pre, s, h.post),
                expect,
                what: format!("{what} @ {}", h.name),
            });
        }
    }
    cases
}

pub fn injection_texts() -> Vec<String> {
    injection_cases().into_iter().map(|c| c.text).collect()
}

struct Injections {
    cases: Vec<Case>,
}

impl Space for Injections {
    fn id(&self) -> String {
        "rule-injections".into()
    }
    fn size(&self) -> u64 {
        self.cases.len() as u64
    }
    fn profile(&self) -> Profile {
        Profile::Fast
    }
    fn chunk(&self) -> u64 {
        256
    }
    fn describe(&self, i: u64) -> String {
        self.cases[i as usize].text.clone()
    }
    fn run(&self, ctx: &mut Ctx, i: u64) -> Outcome {
        let c = &self.cases[i as usize];
        let (front, _) = drive::run_front(ctx, &c.text);
        let detail = |d: &Vec<drive::Diag>| json!({"what": c.what, "expected": format!("{:?}", c.expect),
            "diagnostics": d.iter().map(|x| format!("{}: {}", x.stage, x.message)).collect::<Vec<_>>()});
        match (&front, &c.expect) {
            (Front::Panic(m), _) => Outcome::bad("panic", Violation::new(format!("front-end-panic: {m}"), c.text.clone(), json!({"what": c.what}))),
            (Front::Accepted, Expect::Reject(_)) => Outcome::bad(
                "differs",
                Violation::new("accepted-ill-formed", c.text.clone(), json!({"what": c.what, "expected": format!("{:?}", c.expect)})),
            ),
            (Front::Rejected(d), Expect::Valid) => {
                Outcome::bad("differs", Violation::new("rejected-well-formed", c.text.clone(), detail(d)))
            }
            (Front::Rejected(d), Expect::Reject(cats)) => {
                if !cats.is_empty() && !d.iter().any(|x| cats.contains(&x.message.as_str())) {
                    return Outcome::bad("differs", Violation::new("rejection-names-wrong-category", c.text.clone(), detail(d)));
                }
                Outcome::ok("rejected:ill-formed", true)
            }
            (Front::Rejected(_), Expect::Consistent) => Outcome::ok("consistent:rejected", false),
            (Front::Accepted, Expect::Valid | Expect::Consistent) => {
                // accepted side: must also run without crashing
                let o = drive::run_pipeline(ctx, &c.text, M0, RunOpts::default());
                if let End::Panic(m) = &o.end {
                    return Outcome::bad("panic", Violation::new(format!("accepted-then-panic: {m}"), c.text.clone(), json!({"what": c.what})));
                }
                Outcome::ok(if c.expect == Expect::Valid { "accepted:well-formed" } else { "consistent:accepted" }, true)
            }
            (_, Expect::RejectUnlessInLoop | Expect::RejectUnlessInFunc) => unreachable!(),
        }
    }
}
