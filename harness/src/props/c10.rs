//! C10 — layout is insignificant (E1 with deviation bounding over token-preserving re-layouts).

use serde_json::json;

use crate::ast::*;
use crate::drive::{self, Ctx, Diag, M0, Obs, RunOpts};
use crate::engine::{Outcome, Profile, PropMeta, Space, Tier, Violation};
use crate::gen_prog::Gen;

pub fn meta(_tier: Tier) -> PropMeta {
    PropMeta {
        id: "C10",
        level: "exploration",
        rule: "hosts: every C01 statement sequence of length <= 2, every C01 function/recursion template, a \
               stride of the control-flow layer, a set of rejected programs, and examples/*.ns re-tokenised by \
               the harness's own tokenizer. The harness prints its own token sequence and re-lays it out: \
               baseline single spaces; every layout with <= 1 (quick) / <= 2 (thorough) deviating gap drawn from \
               {LF, CRLF, CR, TAB, mixed blanks, ` # c LF`, `#CRLF`, `#x CR`, and the empty gap next to \
               punctuation}, whitespace-only forms inside `if to say` / `if not so` / `small pass`; all uniform \
               layouts; one token per line; redundant parentheses around every value sub-expression, one and two \
               at a time and all at once. Oracle: same acceptance, same multiset of diagnostic kinds, same \
               printed values and ending as the baseline layout. A case = one host with all its layouts; \
               non-trivial = the host prints something or is rejected; distinct by host text"
            .into(),
        assumptions: vec![
            "comments are only placed between tokens, never inside a multi-word keyword (that changes the token sequence)".into(),
            "empty gaps only next to punctuation, never between a number and `.` or between two words".into(),
        ],
        explanation: String::new(),
    }
}

const GAPS: &[&str] = &["\n", "\r\n", "\r", "\t", "  \n\t ", " # c\n", "#\r\n", "#x\r", " #\n"];
const KW_GAPS: &[&str] = &["\n", "\r\n", "\r", "\t", "  \n\t "];

fn tight_ok(a: &Tok, b: &Tok) -> bool {
    let punct = |t: &Tok| t.kind == TK::Punct;
    // never glue a number to a following `.`, nor `.` to a following number
    if (a.kind == TK::Num && b.text == ".") || (a.text == "." && b.kind == TK::Num) {
        return false;
    }
    punct(a) || punct(b)
}

fn alternatives(a: &Tok, b: &Tok) -> Vec<&'static str> {
    if a.kw_inner {
        return KW_GAPS.to_vec();
    }
    let mut v = GAPS.to_vec();
    if tight_ok(a, b) {
        v.push("");
    }
    v
}

fn layout(toks: &[Tok], gaps: &[&str]) -> String {
    let mut s = String::new();
    for (i, t) in toks.iter().enumerate() {
        if i > 0 {
            s.push_str(gaps[i - 1]);
        }
        s.push_str(&t.text);
    }
    s
}

fn kinds(d: &[Diag]) -> Vec<(String, String)> {
    let mut v: Vec<(String, String)> = d.iter().map(|x| (x.severity.to_string(), x.message.clone())).collect();
    v.sort();
    v
}

fn observe(ctx: &Ctx, text: &str) -> (Obs, Vec<(String, String)>) {
    let o = drive::run_pipeline(ctx, text, M0, RunOpts::default());
    let k = match &o.front {
        drive::Front::Rejected(_) => {
            // rejected: compare all front-end diagnostics
            let (_, all) = drive::run_front(ctx, text);
            kinds(&all)
        }
        _ => kinds(&o.warns),
    };
    (o, k)
}

fn same(a: &(Obs, Vec<(String, String)>), b: &(Obs, Vec<(String, String)>)) -> bool {
    let acc = |o: &Obs| matches!(o.front, drive::Front::Accepted);
    acc(&a.0) == acc(&b.0) && a.1 == b.1 && a.0.out == b.0.out && a.0.end == b.0.end
}

// ---------------------------------------------------------------------------------------
// redundant parentheses
// ---------------------------------------------------------------------------------------

/// visits every value sub-expression in a fixed order; `f(k, e)` may replace it
fn map_exprs(prog: &[S], f: &mut dyn FnMut(usize, E) -> E) -> Vec<S> {
    fn ex(e: &E, k: &mut usize, f: &mut dyn FnMut(usize, E) -> E, wrap_self: bool) -> E {
        let inner = match e {
            E::Bin(op, a, b) => E::Bin(*op, Box::new(ex(a, k, f, true)), Box::new(ex(b, k, f, true))),
            E::Not(x) => E::Not(Box::new(ex(x, k, f, true))),
            E::Neg(x) => E::Neg(Box::new(ex(x, k, f, true))),
            E::Arr(items) => E::Arr(items.iter().map(|x| ex(x, k, f, true)).collect()),
            E::Idx(a, i) => E::Idx(Box::new(ex(a, k, f, true)), Box::new(ex(i, k, f, true))),
            E::Call(n, args) => E::Call(n.clone(), args.iter().map(|x| ex(x, k, f, true)).collect()),
            E::Meth(r, m, args) => {
                let mutating = matches!(m.as_str(), "push" | "pop" | "reverse");
                // the receiver of a mutating method must stay an lvalue
                let r2 = if mutating { lv(r, k, f) } else { ex(r, k, f, true) };
                E::Meth(Box::new(r2), m.clone(), args.iter().map(|x| ex(x, k, f, true)).collect())
            }
            E::Paren(x) => E::Paren(Box::new(ex(x, k, f, true))),
            leaf => leaf.clone(),
        };
        if wrap_self {
            let me = *k;
            *k += 1;
            f(me, inner)
        } else {
            inner
        }
    }
    /// lvalue chains: only the index expressions are value positions
    fn lv(e: &E, k: &mut usize, f: &mut dyn FnMut(usize, E) -> E) -> E {
        match e {
            E::Idx(a, i) => E::Idx(Box::new(lv(a, k, f)), Box::new(ex(i, k, f, true))),
            other => other.clone(),
        }
    }
    fn st(s: &S, k: &mut usize, f: &mut dyn FnMut(usize, E) -> E) -> S {
        match s {
            S::Make(v, e) => S::Make(v.clone(), e.as_ref().map(|e| ex(e, k, f, true))),
            S::Set(v, e) => S::Set(v.clone(), ex(e, k, f, true)),
            S::SetIdx(t, e) => S::SetIdx(lv(t, k, f), ex(e, k, f, true)),
            S::If(c, t, e) => S::If(ex(c, k, f, true), bl(t, k, f), e.as_ref().map(|e| bl(e, k, f))),
            S::Loop(c, b) => S::Loop(ex(c, k, f, true), bl(b, k, f)),
            S::Block(b) => S::Block(bl(b, k, f)),
            S::Func(n, p, b) => S::Func(n.clone(), p.clone(), bl(b, k, f)),
            S::Ret(e) => S::Ret(e.as_ref().map(|e| ex(e, k, f, true))),
            // an expression statement must start with an identifier: do not wrap the statement itself
            S::Expr(e) => S::Expr(ex(e, k, f, false)),
            S::Break => S::Break,
            S::Next => S::Next,
        }
    }
    fn bl(b: &[S], k: &mut usize, f: &mut dyn FnMut(usize, E) -> E) -> Vec<S> {
        b.iter().map(|s| st(s, k, f)).collect()
    }
    let mut k = 0;
    bl(prog, &mut k, f)
}

fn count_exprs(prog: &[S]) -> usize {
    let mut n = 0;
    let _ = map_exprs(prog, &mut |_, e| {
        n += 1;
        e
    });
    n
}

// ---------------------------------------------------------------------------------------

enum HostKind {
    Ast(Vec<S>),
    Toks(Vec<Tok>),
}

struct LayoutSpace {
    id: String,
    hosts: Gen<Vec<S>>,
    text_hosts: Vec<(String, Vec<Tok>)>,
    max_dev: usize,
}

impl LayoutSpace {
    fn host(&self, i: u64) -> (String, HostKind) {
        if i < self.hosts.count {
            let p = self.hosts.nth(i);
            (print(&p), HostKind::Ast(p))
        } else {
            let (name, t) = &self.text_hosts[(i - self.hosts.count) as usize];
            (name.clone(), HostKind::Toks(t.clone()))
        }
    }
}

impl Space for LayoutSpace {
    fn id(&self) -> String {
        self.id.clone()
    }
    fn size(&self) -> u64 {
        self.hosts.count + self.text_hosts.len() as u64
    }
    fn profile(&self) -> Profile {
        Profile::Fast
    }
    fn chunk(&self) -> u64 {
        16
    }
    fn case_timeout_ms(&self) -> u64 {
        600_000
    }
    fn describe(&self, i: u64) -> String {
        format!("all re-layouts (<= {} deviating gaps) and redundant parenthesisations of: {}", self.max_dev, self.host(i).0)
    }
    fn run(&self, ctx: &mut Ctx, i: u64) -> Outcome {
        let (name, host) = self.host(i);
        let (toks, ast) = match host {
            HostKind::Ast(p) => {
                if !printable(&p) {
                    return Outcome::ok("skip:unprintable", false);
                }
                (prog_toks(&p), Some(p))
            }
            HostKind::Toks(t) => (t, None),
        };
        if toks.len() < 2 {
            return Outcome::ok("skip:too-small", false);
        }
        let ngaps = toks.len() - 1;
        let base_gaps: Vec<&str> = vec![" "; ngaps];
        let base_text = layout(&toks, &base_gaps);
        let base = observe(ctx, &base_text);
        let mut layouts = 0u64;
        let bad = |text: String, what: &str, got: &(Obs, Vec<(String, String)>)| {
            Outcome::bad(
                "differs",
                Violation::new(
                    "layout-changes-meaning",
                    text,
                    json!({"what": what, "host": name, "baseline": base.0.show(), "baseline_diags": format!("{:?}", base.1),
                           "got": got.0.show(), "got_diags": format!("{:?}", got.1)}),
                ),
            )
        };
        let alts: Vec<Vec<&str>> = (0..ngaps).map(|g| alternatives(&toks[g], &toks[g + 1])).collect();
        // one deviating gap
        for g in 0..ngaps {
            for a in &alts[g] {
                let mut gaps = base_gaps.clone();
                gaps[g] = a;
                let text = layout(&toks, &gaps);
                let got = observe(ctx, &text);
                layouts += 1;
                if !same(&base, &got) {
                    return bad(text, "one deviating gap", &got);
                }
            }
        }
        // two deviating gaps
        if self.max_dev >= 2 && ngaps <= 90 {
            for g in 0..ngaps {
                for h in g + 1..ngaps {
                    for a in &alts[g] {
                        for b in &alts[h] {
                            let mut gaps = base_gaps.clone();
                            gaps[g] = a;
                            gaps[h] = b;
                            let text = layout(&toks, &gaps);
                            let got = observe(ctx, &text);
                            layouts += 1;
                            if !same(&base, &got) {
                                return bad(text, "two deviating gaps", &got);
                            }
                        }
                    }
                }
            }
        }
        // uniform layouts (each gap takes the form if it is allowed there, else its first allowed form)
        for u in GAPS.iter().chain(std::iter::once(&"")) {
            let gaps: Vec<&str> = (0..ngaps)
                .map(|g| if alts[g].contains(u) { *u } else if toks[g].kw_inner { if KW_GAPS.contains(u) { *u } else { "\n" } } else { " " })
                .collect();
            let text = layout(&toks, &gaps);
            let got = observe(ctx, &text);
            layouts += 1;
            if !same(&base, &got) {
                return bad(text, "uniform layout", &got);
            }
        }
        // full product for tiny programs
        if ngaps <= 5 {
            let total: usize = alts.iter().map(|a| a.len() + 1).product();
            for mut code in 0..total {
                let mut gaps = base_gaps.clone();
                for g in 0..ngaps {
                    let k = code % (alts[g].len() + 1);
                    code /= alts[g].len() + 1;
                    if k > 0 {
                        gaps[g] = alts[g][k - 1];
                    }
                }
                let text = layout(&toks, &gaps);
                let got = observe(ctx, &text);
                layouts += 1;
                if !same(&base, &got) {
                    return bad(text, "full product", &got);
                }
            }
        }
        // redundant parentheses
        if let Some(p) = &ast {
            let n = count_exprs(p);
            let mut variants: Vec<Vec<S>> = Vec::new();
            for a in 0..n {
                variants.push(map_exprs(p, &mut |k, e| if k == a { E::Paren(Box::new(e)) } else { e }));
            }
            if n <= 40 {
                for a in 0..n {
                    for b in a + 1..n {
                        variants.push(map_exprs(p, &mut |k, e| if k == a || k == b { E::Paren(Box::new(e)) } else { e }));
                    }
                }
            }
            variants.push(map_exprs(p, &mut |_, e| E::Paren(Box::new(e))));
            variants.push(map_exprs(p, &mut |_, e| E::Paren(Box::new(E::Paren(Box::new(e))))));
            for v in variants {
                let text = print(&v);
                let got = observe(ctx, &text);
                layouts += 1;
                if !same(&base, &got) {
                    return bad(text, "redundant parentheses", &got);
                }
            }
        }
        let nontrivial = !base.0.out.is_empty() || !matches!(base.0.front, drive::Front::Accepted);
        Outcome {
            nontrivial,
            class: if matches!(base.0.front, drive::Front::Accepted) { "same:accepted".into() } else { "same:rejected".into() },
            violations: vec![],
            counters: vec![("layouts", layouts)],
            sample: None,
        }
    }
}

/// the harness's own tokenizer for example files (independent of the real lexer): words,
/// numbers, string literals, punctuation; comments and whitespace dropped
fn tokenize(src: &str) -> Option<Vec<Tok>> {
    let b: Vec<char> = src.chars().collect();
    let mut i = 0;
    let mut out: Vec<Tok> = Vec::new();
    while i < b.len() {
        let c = b[i];
        if c.is_whitespace() {
            i += 1;
        } else if c == '#' {
            while i < b.len() && b[i] != '\n' && b[i] != '\r' {
                i += 1;
            }
        } else if c == '"' || c == '\'' {
            let q = c;
            let mut s = String::new();
            s.push(c);
            i += 1;
            loop {
                if i >= b.len() {
                    return None;
                }
                let d = b[i];
                s.push(d);
                i += 1;
                if d == '\\' {
                    if i >= b.len() {
                        return None;
                    }
                    s.push(b[i]);
                    i += 1;
                } else if d == q {
                    break;
                } else if d == '\n' {
                    return None;
                }
            }
            out.push(Tok { text: s, kind: TK::Str, kw_inner: false });
        } else if c.is_ascii_digit() {
            let mut s = String::new();
            while i < b.len() && b[i].is_ascii_digit() {
                s.push(b[i]);
                i += 1;
            }
            if i + 1 < b.len() && b[i] == '.' && b[i + 1].is_ascii_digit() {
                s.push('.');
                i += 1;
                while i < b.len() && b[i].is_ascii_digit() {
                    s.push(b[i]);
                    i += 1;
                }
            }
            out.push(Tok { text: s, kind: TK::Num, kw_inner: false });
        } else if c.is_ascii_alphabetic() || c == '_' {
            let mut s = String::new();
            while i < b.len() && (b[i].is_ascii_alphanumeric() || b[i] == '_') {
                s.push(b[i]);
                i += 1;
            }
            out.push(Tok { text: s, kind: TK::Word, kw_inner: false });
        } else if "()[],.".contains(c) {
            out.push(Tok { text: c.to_string(), kind: TK::Punct, kw_inner: false });
            i += 1;
        } else {
            return None;
        }
    }
    // multi-word keywords
    let words: Vec<String> = out.iter().map(|t| t.text.clone()).collect();
    let w = |j: usize| words.get(j).map(String::as_str).unwrap_or("");
    for k in 0..words.len() {
        if w(k) == "if" && ((w(k + 1) == "to" && w(k + 2) == "say") || (w(k + 1) == "not" && w(k + 2) == "so")) {
            out[k].kw_inner = true;
            out[k + 1].kw_inner = true;
        }
        if w(k) == "small" && w(k + 1) == "pass" {
            out[k].kw_inner = true;
        }
    }
    Some(out)
}

pub fn spaces(tier: Tier) -> Vec<Box<dyn Space>> {
    let t = tier == Tier::Thorough;
    let mut text_hosts = Vec::new();
    if let Ok(rd) = std::fs::read_dir(format!("{}/examples", crate::util::repo_root())) {
        let mut files: Vec<_> = rd.flatten().map(|e| e.path()).collect();
        files.sort();
        for f in files {
            if let Ok(src) = std::fs::read_to_string(&f)
                && let Some(toks) = tokenize(&src)
                && toks.len() <= if t { 400 } else { 250 }
            {
                text_hosts.push((format!("examples/{}", f.file_name().unwrap().to_string_lossy()), toks));
            }
        }
    }
    // rejected programs and odd-but-valid token sequences, written as text
    for src in [
        "make x get",
        "shout(nope)",
        "make x get 1 x get \"s\" shout(x minus 1)",
        "if to say (1) start end",
        "do f( start end",
        "make s get \"a#b\" shout(s) # trailing",
        "make s get 'single' shout(s add \"{s}\")",
        "shout(1 small pass 2) shout(not (1 small pass 2))",
        "if to say (true) start shout(1) end if not so start shout(2) end",
        "shout(2.5.floor()) shout((2).abs()) shout([1, 2].len())",
    ] {
        if let Some(tk) = tokenize(src) {
            text_hosts.push((src.to_string(), tk));
        }
    }
    let c01 = crate::props::c01::layout_hosts(t);
    // bound 2 is quadratic in the number of gaps: thorough runs it on the same hosts
    vec![Box::new(LayoutSpace { id: format!("relayout-dev{}", if t { 2 } else { 1 }), hosts: c01, text_hosts, max_dev: if t { 2 } else { 1 } })]
}
