//! C04 — names resolve lexically; functions are visible throughout their block.
//! E1: every program of a scope micro-language up to N items (M0 vs reference). The same
//! space serves C09 (accepted ⇔ no scope rule broken).

use std::sync::Arc;

use crate::ast::*;
use crate::drive::Ctx;
use crate::engine::{Outcome, Profile, PropMeta, Space, Tier};
use crate::gen_prog::Gen;
use crate::props::refcmp::{self, CmpOpts};

pub fn meta(_tier: Tier) -> PropMeta {
    PropMeta {
        id: "C04",
        level: "exploration",
        rule: "every forest of up to N items (quick 5, thorough 6; nesting <= 3) over: declare / assign / \
               read / placeholder-read of names a,b; block; 2-iteration loop; definition of f() and of g(a) \
               (parameter shadows); calls of f and g at any position (before the definition, from nested \
               blocks and functions). Every written value is a tag naming its site, so any mis-binding \
               changes the printed tags. Plus hand-built recursion / several-live-activation templates. \
               Programs the reference scope checker finds ill-scoped are counted and skipped here (C09 \
               decides them); non-trivial = well-scoped, binding documented, and printing >= 1 tag"
            .into(),
        assumptions: vec![
            "a use that precedes a later declaration of the same name in an enclosing block is not settled by the documentation: generated, counted, not compared".into(),
            "reading a captured variable through a hoisted function before its make has executed is not defined: counted, not compared".into(),
        ],
        explanation: String::new(),
    }
}

#[derive(Clone, Debug)]
pub enum Item {
    Decl(u8),
    Assign(u8),
    Read(u8),
    Place(u8),
    CallF,
    CallG,
    Block(Vec<Item>),
    Loop(Vec<Item>),
    DefF(Vec<Item>),
    DefG(Vec<Item>),
}

const LEAVES: u64 = 10;
const CONTAINERS: u64 = 4;

/// exact counts of forests with `n` items and nesting budget `d`
pub struct ForestCount {
    table: Vec<Vec<u64>>, // [d][n]
}

impl ForestCount {
    pub fn new(max_n: usize, max_d: usize) -> Self {
        let mut table = vec![vec![0u64; max_n + 1]; max_d + 1];
        for d in 0..=max_d {
            table[d][0] = 1;
            for n in 1..=max_n {
                let mut c = LEAVES * table[d][n - 1];
                if d > 0 {
                    for k in 0..n {
                        c += CONTAINERS * table[d - 1][k] * table[d][n - 1 - k];
                    }
                }
                table[d][n] = c;
            }
        }
        ForestCount { table }
    }
    pub fn count(&self, n: usize, d: usize) -> u64 {
        self.table[d][n]
    }
    pub fn unrank(&self, n: usize, d: usize, mut i: u64) -> Vec<Item> {
        if n == 0 {
            return vec![];
        }
        // first item is a leaf
        let leaf_block = self.table[d][n - 1];
        if i < LEAVES * leaf_block {
            let kind = i / leaf_block;
            let rest = self.unrank(n - 1, d, i % leaf_block);
            let leaf = match kind {
                0 => Item::Decl(0),
                1 => Item::Decl(1),
                2 => Item::Assign(0),
                3 => Item::Assign(1),
                4 => Item::Read(0),
                5 => Item::Read(1),
                6 => Item::Place(0),
                7 => Item::Place(1),
                8 => Item::CallF,
                _ => Item::CallG,
            };
            let mut v = vec![leaf];
            v.extend(rest);
            return v;
        }
        i -= LEAVES * leaf_block;
        // first item is a container holding k items
        for k in 0..n {
            let inner = self.table[d - 1][k];
            let after = self.table[d][n - 1 - k];
            let block = CONTAINERS * inner * after;
            if i < block {
                let kind = i / (inner * after);
                let r = i % (inner * after);
                let inside = self.unrank(k, d - 1, r / after);
                let rest = self.unrank(n - 1 - k, d, r % after);
                let c = match kind {
                    0 => Item::Block(inside),
                    1 => Item::Loop(inside),
                    2 => Item::DefF(inside),
                    _ => Item::DefG(inside),
                };
                let mut v = vec![c];
                v.extend(rest);
                return v;
            }
            i -= block;
        }
        unreachable!("rank out of range")
    }
}

fn name(v: u8) -> &'static str {
    if v == 0 { "a" } else { "b" }
}

/// items → statements; every written value is a unique tag naming its site
pub fn lower(items: &[Item]) -> Vec<S> {
    fn go(items: &[Item], k: &mut u32) -> Vec<S> {
        let mut out = Vec::new();
        for it in items {
            *k += 1;
            let id = *k;
            match it {
                Item::Decl(v) => out.push(make(name(*v), st(&format!("d{id}")))),
                Item::Assign(v) => out.push(set(name(*v), st(&format!("w{id}")))),
                Item::Read(v) => out.push(shout(var(name(*v)))),
                // every other placeholder site repeats its placeholder within one string
                Item::Place(v) if id % 2 == 1 => out.push(shout(E::Str(vec![
                    SP::Lit(format!("p{id}:")),
                    SP::Var(name(*v).into()),
                    SP::Lit("+".into()),
                    SP::Var(name(*v).into()),
                ]))),
                Item::Place(v) => out.push(shout(E::Str(vec![SP::Lit(format!("p{id}:")), SP::Var(name(*v).into())]))),
                Item::CallF => out.push(S::Expr(call("f", vec![]))),
                Item::CallG => out.push(S::Expr(call("g", vec![st(&format!("arg{id}"))]))),
                Item::Block(inner) => out.push(S::Block(go(inner, k))),
                Item::Loop(inner) => {
                    let c = format!("i{id}");
                    let mut body = vec![S::Set(c.clone(), bin(Op::Add, var(&c), num("1")))];
                    body.extend(go(inner, k));
                    out.push(S::Make(c.clone(), Some(num("0"))));
                    out.push(S::Loop(bin(Op::Lt, var(&c), num("2")), body));
                }
                Item::DefF(inner) => out.push(func("f", &[], go(inner, k))),
                Item::DefG(inner) => out.push(func("g", &["a"], go(inner, k))),
            }
        }
        out
    }
    let mut k = 0;
    go(items, &mut k)
}

pub fn forests(max_items: usize, depth: usize) -> Gen<Vec<S>> {
    let fc = Arc::new(ForestCount::new(max_items, depth));
    let mut parts = Vec::new();
    for n in 1..=max_items {
        let fc2 = Arc::clone(&fc);
        parts.push(Gen::new(fc.count(n, depth), move |i| lower(&fc2.unrank(n, depth, i))));
    }
    Gen::or(parts)
}

/// hand-built templates: recursion with several live activations, caller/callee name reuse
pub fn templates() -> Gen<Vec<S>> {
    let mut v: Vec<Vec<S>> = Vec::new();
    let sadd = |x: E, y: E| bin(Op::Add, x, y);
    // each activation sees its own local through its own nested function
    for depth in ["0", "1", "3"] {
        v.push(vec![
            func("r", &["n"], vec![
                make("a", sadd(st("act"), var("n"))),
                func("inn", &[], vec![S::Ret(Some(var("a")))]),
                S::If(bin(Op::Gt, var("n"), num("0")), vec![S::Expr(call("r", vec![bin(Op::Sub, var("n"), num("1"))]))], None),
                shout(call("inn", vec![])),
                shout(var("a")),
                set("a", sadd(var("a"), st("!"))),
                shout(call("inn", vec![])),
            ]),
            S::Expr(call("r", vec![num(depth)])),
        ]);
    }
    // a hoisted inner function called before the activation's own `make x` has run, while an
    // older activation of the same function has its x live: read, assignment, placeholder, push
    for form in 0..4u8 {
        let (inner_body, show): (Vec<S>, E) = match form {
            0 => (vec![S::Ret(Some(var("x")))], call("g", vec![])),
            1 => (vec![set("x", st("set-by-g")), S::Ret(Some(st("ok")))], call("g", vec![])),
            2 => (vec![S::Ret(Some(E::Str(vec![SP::Lit("ph:".into()), SP::Var("x".into())])))], call("g", vec![])),
            _ => (vec![S::Expr(meth(var("x"), "push", vec![st("pushed")])), S::Ret(Some(st("ok")))], call("g", vec![])),
        };
        let init = if form == 3 { E::Arr(vec![var("n")]) } else { sadd(st("x-of-"), var("n")) };
        v.push(vec![
            func("f", &["n", "early"], vec![
                S::If(var("early"), vec![shout(show.clone())], None),
                make("x", init),
                func("g", &[], inner_body),
                S::If(bin(Op::Gt, var("n"), num("0")), vec![S::Expr(call("f", vec![bin(Op::Sub, var("n"), num("1")), E::Bool(true)]))], None),
                shout(call("g", vec![])),
                shout(var("x")),
            ]),
            S::Expr(call("f", vec![num("1"), E::Bool(false)])),
        ]);
    }
    // callee reads/assigns the global, never the caller's same-named local
    for assign in [false, true] {
        let callee_body = if assign { vec![set("a", st("set-by-callee")), shout(var("a"))] } else { vec![shout(var("a"))] };
        v.push(vec![
            make("a", st("global")),
            func("callee", &[], callee_body),
            func("caller", &[], vec![make("a", st("callers-local")), S::Expr(call("callee", vec![])), shout(var("a"))]),
            S::Expr(call("caller", vec![])),
            shout(var("a")),
        ]);
    }
    // one string with the same placeholder twice (and a different one in between), read in a
    // callee while the caller holds same-named variables
    {
        let twice = E::Str(vec![SP::Var("a".into()), SP::Lit("/".into()), SP::Var("b".into()), SP::Lit("/".into()), SP::Var("a".into()), SP::Lit("/".into()), SP::Var("b".into())]);
        v.push(vec![
            make("a", st("global-a")),
            make("b", st("global-b")),
            func("callee", &[], vec![shout(twice.clone())]),
            func("caller", &["b"], vec![make("a", st("callers-a")), S::Expr(call("callee", vec![])), shout(twice.clone())]),
            S::Expr(call("caller", vec![st("callers-b")])),
            shout(twice.clone()),
        ]);
        v.push(vec![
            func("rec", &["a", "b"], vec![
                S::If(bin(Op::Gt, var("a"), num("0")), vec![S::Expr(call("rec", vec![bin(Op::Sub, var("a"), num("1")), sadd(var("b"), st("'"))]))], None),
                shout(twice.clone()),
            ]),
            S::Expr(call("rec", vec![num("2"), st("t")])),
        ]);
    }
    // parameter named like a global; recursion re-binding the parameter
    v.push(vec![
        make("a", st("global")),
        func("p", &["a", "n"], vec![
            shout(var("a")),
            S::If(bin(Op::Gt, var("n"), num("0")), vec![S::Expr(call("p", vec![sadd(var("a"), st("+")), bin(Op::Sub, var("n"), num("1"))]))], None),
            shout(E::Str(vec![SP::Lit("after:".into()), SP::Var("a".into())])),
        ]),
        S::Expr(call("p", vec![st("arg"), num("2")])),
        shout(var("a")),
    ]);
    // mutual recursion with same-named locals
    v.push(vec![
        func("ping", &["n"], vec![
            make("loc", sadd(st("ping"), var("n"))),
            S::If(bin(Op::Gt, var("n"), num("0")), vec![S::Expr(call("pong", vec![bin(Op::Sub, var("n"), num("1"))]))], None),
            shout(var("loc")),
        ]),
        func("pong", &["n"], vec![
            make("loc", sadd(st("pong"), var("n"))),
            S::If(bin(Op::Gt, var("n"), num("0")), vec![S::Expr(call("ping", vec![bin(Op::Sub, var("n"), num("1"))]))], None),
            shout(var("loc")),
        ]),
        S::Expr(call("ping", vec![num("3")])),
    ]);
    // inner function shadows an outer one; outer still visible elsewhere
    v.push(vec![
        func("h", &[], vec![S::Ret(Some(st("outer-h")))]),
        func("user", &[], vec![func("h", &[], vec![S::Ret(Some(st("inner-h")))]), S::Ret(Some(call("h", vec![])))]),
        shout(call("user", vec![])),
        shout(call("h", vec![])),
        S::Block(vec![shout(call("h", vec![])), func("h", &[], vec![S::Ret(Some(st("block-h")))])]),
        shout(call("h", vec![])),
    ]);
    // a function defined in a loop captures the iteration's variable
    v.push(vec![
        make("i", num("0")),
        S::Loop(bin(Op::Lt, var("i"), num("3")), vec![
            make("cur", sadd(st("it"), var("i"))),
            func("show", &[], vec![S::Ret(Some(var("cur")))]),
            set("i", bin(Op::Add, var("i"), num("1"))),
            shout(call("show", vec![])),
        ]),
    ]);
    // same-scope re-declaration rebinds the same variable (a nested function sees it)
    v.push(vec![
        make("a", st("first")),
        func("see", &[], vec![S::Ret(Some(var("a")))]),
        shout(call("see", vec![])),
        make("a", st("second")),
        shout(call("see", vec![])),
        S::Block(vec![make("a", st("inner")), shout(call("see", vec![])), shout(var("a"))]),
        shout(var("a")),
    ]);
    // indexed writes and indexed-receiver mutations bind lexically too: the callee's `a` is the
    // global, whatever same-named local or parameter the caller / a recursive activation holds
    for form in 0..5u8 {
        let write: Vec<S> = match form {
            0 => vec![S::SetIdx(idx(var("a"), num("0")), st("W"))],
            1 => vec![S::SetIdx(idx(idx(var("a"), num("1")), num("0")), st("W"))],
            2 => vec![S::Expr(meth(idx(var("a"), num("1")), "push", vec![st("W")]))],
            3 => vec![S::Expr(meth(idx(var("a"), num("1")), "reverse", vec![]))],
            _ => vec![shout(meth(idx(var("a"), num("1")), "pop", vec![]))],
        };
        v.push(vec![
            make("a", E::Arr(vec![st("g0"), E::Arr(vec![st("g1"), st("g2")])])),
            func("callee", &[], write.clone()),
            func("caller", &[], vec![make("a", E::Arr(vec![st("c0"), E::Arr(vec![st("c1"), st("c2")])])), S::Expr(call("callee", vec![])), shout(var("a"))]),
            S::Expr(call("caller", vec![])),
            shout(var("a")),
        ]);
        // the same through a parameter named like the global, and through recursion
        v.push(vec![
            make("a", E::Arr(vec![st("g0"), E::Arr(vec![st("g1"), st("g2")])])),
            func("callee", &[], write.clone()),
            func("viaparam", &["a", "n"], vec![
                S::If(bin(Op::Gt, var("n"), num("0")), vec![S::Expr(call("viaparam", vec![E::Arr(vec![st("p0"), E::Arr(vec![var("n"), st("p2")])]), bin(Op::Sub, var("n"), num("1"))]))], Some(vec![S::Expr(call("callee", vec![]))])),
                shout(var("a")),
            ]),
            S::Expr(call("viaparam", vec![E::Arr(vec![st("q0"), E::Arr(vec![st("q1"), st("q2")])]), num("2")])),
            shout(var("a")),
        ]);
    }
    Gen::of(v)
}

/// Arguments of a call are evaluated in the CALLER's activation, also when the callee is the
/// function already running (recursion, or a nested function calling its encloser): every pair
/// of argument expressions over the function's own parameters, counter first or last.
pub fn recursion_args() -> Gen<Vec<S>> {
    let sadd = |x: E, y: E| bin(Op::Add, x, y);
    let arg_alphabet = |a: &str, b: &str| -> Vec<E> {
        vec![
            var(a),
            var(b),
            sadd(var(a), st("x")),
            sadd(var(b), var(a)),
            E::Str(vec![SP::Lit("<".into()), SP::Var(a.into()), SP::Var(b.into()), SP::Lit(">".into())]),
            call("w", vec![var(b), var(a), num("0")]),
        ]
    };
    let mut v: Vec<Vec<S>> = Vec::new();
    let alpha = arg_alphabet("a", "b");
    for x in &alpha {
        for y in &alpha {
            for counter_first in [false, true] {
                for nested in [false, true] {
                    let dec = bin(Op::Sub, var("n"), num("1"));
                    let (params, rec_args, first_args): (Vec<&str>, Vec<E>, Vec<E>) = if counter_first {
                        (vec!["n", "a", "b"], vec![dec, x.clone(), y.clone()], vec![num("2"), st("L"), st("R")])
                    } else {
                        (vec!["a", "b", "n"], vec![x.clone(), y.clone(), dec], vec![st("L"), st("R"), num("2")])
                    };
                    // inside the argument alphabet `w(..)` is a call back into the running function with n = 0
                    let fix = |e: &E| -> E {
                        fn go(e: &E, counter_first: bool) -> E {
                            match e {
                                E::Call(f, args) if f == "w" => {
                                    let a: Vec<E> = args.iter().map(|x| go(x, counter_first)).collect();
                                    let ordered = if counter_first { vec![a[2].clone(), a[0].clone(), a[1].clone()] } else { a };
                                    E::Call("walk".into(), ordered)
                                }
                                E::Bin(op, l, r) => E::Bin(*op, Box::new(go(l, counter_first)), Box::new(go(r, counter_first))),
                                other => other.clone(),
                            }
                        }
                        go(e, counter_first)
                    };
                    let rec_args: Vec<E> = rec_args.iter().map(fix).collect();
                    let rec_call = call("walk", rec_args);
                    let body: Vec<S> = if nested {
                        vec![
                            func("again", &[], vec![S::Ret(Some(rec_call))]),
                            S::If(bin(Op::Gt, var("n"), num("0")), vec![S::Ret(Some(call("again", vec![])))], None),
                            S::Ret(Some(E::Str(vec![SP::Var("a".into()), SP::Lit("-".into()), SP::Var("b".into())]))),
                        ]
                    } else {
                        vec![
                            S::If(bin(Op::Gt, var("n"), num("0")), vec![S::Ret(Some(rec_call))], None),
                            S::Ret(Some(E::Str(vec![SP::Var("a".into()), SP::Lit("-".into()), SP::Var("b".into())]))),
                        ]
                    };
                    v.push(vec![func("walk", &params, body), shout(call("walk", first_args))]);
                }
            }
        }
    }
    Gen::of(v)
}

pub fn spaces(tier: Tier) -> Vec<Box<dyn Space>> {
    let n = if tier == Tier::Thorough { 6 } else { 5 };
    vec![
        Box::new(ScopeSpace { id: format!("forests-le{n}"), generator: forests(n, 3) }),
        Box::new(ScopeSpace { id: "templates".into(), generator: templates() }),
        Box::new(ScopeSpace { id: "recursion-args".into(), generator: recursion_args() }),
    ]
}

struct ScopeSpace {
    id: String,
    generator: Gen<Vec<S>>,
}

impl Space for ScopeSpace {
    fn id(&self) -> String {
        self.id.clone()
    }
    fn size(&self) -> u64 {
        self.generator.count
    }
    fn profile(&self) -> Profile {
        Profile::Fast
    }
    fn chunk(&self) -> u64 {
        8192
    }
    fn describe(&self, i: u64) -> String {
        print(&self.generator.nth(i))
    }
    fn run(&self, ctx: &mut Ctx, i: u64) -> Outcome {
        refcmp::compare(ctx, &self.generator.nth(i), &CmpOpts::default())
    }
}
