fn main() {}
