//! Scriptable child process for C15 / C16.
//!
//! `vchild dump`  — creates `$VERIF_MARKER.<pid>` first thing, then prints (hex encoded, one
//!                  record per line) its argv, its whole environment, its cwd and all of stdin.
//! `vchild serve` — connects to the Unix socket `$VCHILD_SOCK`, announces its pid, and then
//!                  executes commanded steps, acknowledging each:
//!                  `o <n>` / `e <n>` write n bytes to stdout / stderr, `x` write one 0xFF
//!                  byte to stdout, `co` / `ce` close stdout / stderr, `q <code>` exit.
//! `vchild emitn <tag> <n_out> <n_err> <code>` — n bytes of the cyclic pattern `tag` on stdout,
//!                  its upper-case form on stderr, then exit <code> (C16 capture lifetimes).
//! `vchild sleepy <ms> <read 0|1>` — optionally drains stdin, sleeps, prints `woke` (C16 timeouts).
//! `vchild exit <code>` / `vchild echo <text>` — trivial helpers.

use std::io::{BufRead, BufReader, Read, Write};
use std::os::unix::ffi::OsStrExt;
use std::os::unix::ffi::OsStringExt;

fn hex(b: &[u8]) -> String {
    let mut s = String::with_capacity(b.len() * 2);
    for x in b {
        s.push_str(&format!("{x:02x}"));
    }
    s
}

fn main() {
    if let Some(m) = std::env::var_os("VERIF_MARKER") {
        let mut p = m.into_vec();
        p.extend_from_slice(format!(".{}", std::process::id()).as_bytes());
        let _ = std::fs::write(std::ffi::OsString::from_vec(p), b"spawned");
    }
    let args: Vec<std::ffi::OsString> = std::env::args_os().collect();
    let mode = args.get(1).map(|a| a.to_string_lossy().to_string()).unwrap_or_default();
    match mode.as_str() {
        "dump" => {
            let out = std::io::stdout();
            let mut o = out.lock();
            for a in &args {
                let _ = writeln!(o, "A {}", hex(a.as_bytes()));
            }
            for (k, v) in std::env::vars_os() {
                let _ = writeln!(o, "E {} {}", hex(k.as_bytes()), hex(v.as_bytes()));
            }
            if let Ok(c) = std::env::current_dir() {
                let _ = writeln!(o, "C {}", hex(c.as_os_str().as_bytes()));
            }
            let mut input = Vec::new();
            let _ = std::io::stdin().read_to_end(&mut input);
            let _ = writeln!(o, "I {}", hex(&input));
            let _ = writeln!(o, "END");
        }
        "serve" => serve(),
        "exit" => {
            let code = args.get(2).and_then(|a| a.to_string_lossy().parse().ok()).unwrap_or(0);
            std::process::exit(code);
        }
        // emitn <tag> <n_out> <n_err> <code>: n bytes of the cyclic pattern tag,tag,... on each stream
        "emitn" => {
            let tag = args.get(2).map(|a| a.as_bytes().to_vec()).unwrap_or_default();
            let num = |k: usize| -> usize { args.get(k).and_then(|a| a.to_string_lossy().parse().ok()).unwrap_or(0) };
            let pat = |n: usize| -> Vec<u8> { (0..n).map(|i| tag[i % tag.len().max(1)]).collect() };
            if !tag.is_empty() {
                let _ = std::io::stdout().write_all(&pat(num(3)));
                let _ = std::io::stdout().flush();
                let _ = std::io::stderr().write_all(&pat(num(4)).iter().map(|b| b.to_ascii_uppercase()).collect::<Vec<u8>>());
            }
            std::process::exit(num(5) as i32);
        }
        // sleepy <ms> <read_stdin 0|1>: optionally drain stdin, sleep, print "woke", exit 0
        "sleepy" => {
            let ms: u64 = args.get(2).and_then(|a| a.to_string_lossy().parse().ok()).unwrap_or(0);
            if args.get(3).is_some_and(|a| a.to_string_lossy() == "1") {
                let mut sink = Vec::new();
                let _ = std::io::stdin().read_to_end(&mut sink);
            }
            std::thread::sleep(std::time::Duration::from_millis(ms));
            let _ = std::io::stdout().write_all(b"woke");
        }
        "echo" => {
            if let Some(a) = args.get(2) {
                let _ = std::io::stdout().write_all(a.as_bytes());
            }
        }
        _ => {}
    }
}

fn serve() {
    let Some(path) = std::env::var_os("VCHILD_SOCK") else { std::process::exit(90) };
    let Ok(sock) = std::os::unix::net::UnixStream::connect(path) else { std::process::exit(91) };
    let mut w = sock.try_clone().expect("clone socket");
    let _ = writeln!(w, "p {}", std::process::id());
    let r = BufReader::new(sock);
    for line in r.lines() {
        let Ok(line) = line else { break };
        let parts: Vec<&str> = line.split_whitespace().collect();
        match parts.as_slice() {
            ["o", n] => {
                let n: usize = n.parse().unwrap_or(0);
                let buf = vec![b'o'; n];
                unsafe { libc::write(1, buf.as_ptr().cast(), n) };
            }
            ["e", n] => {
                let n: usize = n.parse().unwrap_or(0);
                let buf = vec![b'e'; n];
                unsafe { libc::write(2, buf.as_ptr().cast(), n) };
            }
            ["x"] => {
                let b = [0xFFu8];
                unsafe { libc::write(1, b.as_ptr().cast(), 1) };
            }
            ["co"] => unsafe {
                libc::close(1);
            },
            ["ce"] => unsafe {
                libc::close(2);
            },
            ["q", code] => {
                let code: i32 = code.parse().unwrap_or(0);
                // the exit is acknowledged by the process status, not over the socket
                unsafe { libc::_exit(code) };
            }
            _ => {}
        }
        let _ = writeln!(w, "k");
    }
}
