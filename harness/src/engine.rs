//! Sharded exhaustive enumeration engine.
//!
//! A property is decided over one or more *spaces*; a space is a finite, indexable set of
//! cases (`0..size`). The parent process splits every space into contiguous chunks and hands
//! them to persistent worker processes (same binary, `vh worker …`). A worker that dies or
//! hangs on a chunk is replaced, the chunk is re-run case by case ("single" mode) so that
//! the dying case is identified, recorded (`abort` / `hang`) and skipped.
//!
//! Nothing here samples: every index of every space is visited unless a wall cap fires, in
//! which case the run is reported as not exhaustive together with what was covered.

use std::collections::{BTreeMap, HashSet, VecDeque};
use std::io::{BufRead, BufReader, Write};
use std::os::fd::FromRawFd;
use std::process::{Child, ChildStdin, ChildStdout, Command, Stdio};
use std::sync::atomic::{AtomicBool, AtomicU64, Ordering};
use std::sync::{Arc, Mutex};
use std::time::{Duration, Instant};

use serde_json::{Value as J, json};

use crate::findings::Findings;

#[derive(Clone, Copy, PartialEq, Eq, Debug)]
pub enum Profile {
    /// debug assertions on: arena/pool poisoning and internal asserts active
    Poison,
    /// the shipped code path
    Fast,
}

impl Profile {
    pub fn dir(self) -> &'static str {
        match self {
            Profile::Poison => "poison",
            Profile::Fast => "fast",
        }
    }
    pub fn cargo_profile(self) -> &'static str {
        match self {
            Profile::Poison => "vhp",
            Profile::Fast => "vhf",
        }
    }
    pub fn current() -> Profile {
        if cfg!(debug_assertions) { Profile::Poison } else { Profile::Fast }
    }
}

#[derive(Clone, Copy, PartialEq, Eq, Debug)]
pub enum Tier {
    Quick,
    Thorough,
}

impl Tier {
    pub fn as_str(self) -> &'static str {
        match self {
            Tier::Quick => "quick",
            Tier::Thorough => "thorough",
        }
    }
}

#[derive(Debug, Clone)]
pub struct Violation {
    /// failure class (stable across unrelated edits: no line numbers)
    pub class: String,
    /// the failing input in replayable form
    pub input: String,
    /// signature used to match known findings (shrunk / normalised input); defaults to input
    pub signature: String,
    pub detail: J,
}

impl Violation {
    pub fn new(class: impl Into<String>, input: impl Into<String>, detail: J) -> Self {
        let input = input.into();
        Violation { class: class.into(), signature: input.clone(), input, detail }
    }
}

#[derive(Debug, Default)]
pub struct Outcome {
    pub nontrivial: bool,
    /// coarse outcome class for the "distinct outcomes" histogram
    pub class: String,
    pub violations: Vec<Violation>,
    /// additive counters (states, transitions, executions, …)
    pub counters: Vec<(&'static str, u64)>,
    /// optional extra sample (e.g. an op list) to show in the evidence
    pub sample: Option<J>,
}

impl Outcome {
    pub fn ok(class: impl Into<String>, nontrivial: bool) -> Self {
        Outcome { nontrivial, class: class.into(), ..Default::default() }
    }
    pub fn bad(class: impl Into<String>, v: Violation) -> Self {
        Outcome { nontrivial: true, class: class.into(), violations: vec![v], ..Default::default() }
    }
}

pub trait Space: Send + Sync {
    fn id(&self) -> String;
    fn size(&self) -> u64;
    fn profile(&self) -> Profile {
        Profile::Fast
    }
    /// Replayable text of case `i`.
    fn describe(&self, i: u64) -> String;
    fn run(&self, ctx: &mut crate::drive::Ctx, i: u64) -> Outcome;
    fn chunk(&self) -> u64 {
        2048
    }
    fn case_timeout_ms(&self) -> u64 {
        10_000
    }
    /// Is a worker death on a case a property violation (true) or to be ignored (false)?
    fn abort_is_violation(&self) -> bool {
        true
    }
    /// Is a per-case timeout a property violation?
    fn hang_is_violation(&self) -> bool {
        true
    }
    /// Re-run `input` (a `describe`d case or a shrunk variant) and say whether it still
    /// fails with `class`. Used by replay.
    fn replay(&self, _ctx: &mut crate::drive::Ctx, _input: &str) -> Option<J> {
        None
    }
}

pub struct PropMeta {
    pub id: &'static str,
    pub level: &'static str,
    pub rule: String,
    pub assumptions: Vec<String>,
    pub explanation: String,
}

// ---------------------------------------------------------------------------------------
// worker side
// ---------------------------------------------------------------------------------------

static CUR_CASE: AtomicU64 = AtomicU64::new(u64::MAX);
static CUR_START_MS: AtomicU64 = AtomicU64::new(0);
static CUR_LIMIT_MS: AtomicU64 = AtomicU64::new(10_000);
static PROTO_FD: AtomicU64 = AtomicU64::new(0);

fn now_ms() -> u64 {
    static T0: std::sync::OnceLock<Instant> = std::sync::OnceLock::new();
    T0.get_or_init(Instant::now).elapsed().as_millis() as u64
}

fn proto_write(s: &str) {
    let fd = PROTO_FD.load(Ordering::SeqCst) as i32;
    let b = s.as_bytes();
    let mut off = 0;
    while off < b.len() {
        let n = unsafe { libc::write(fd, b[off..].as_ptr().cast(), b.len() - off) };
        if n <= 0 {
            unsafe { libc::_exit(98) };
        }
        off += n as usize;
    }
}

/// Entry point of `vh worker <prop> <tier>`.
pub fn worker_main(prop: &str, tier: Tier) -> ! {
    // Private copies of the protocol pipes; fds 0/1 are given to /dev/null so that the code
    // under test (`shout` → println!, read_line → fd 0) cannot disturb the protocol.
    let (cmd_fd, out_fd) = unsafe {
        let c = libc::fcntl(0, libc::F_DUPFD_CLOEXEC, 100);
        let o = libc::fcntl(1, libc::F_DUPFD_CLOEXEC, 100);
        let null_r = libc::open(c"/dev/null".as_ptr(), libc::O_RDONLY);
        let null_w = libc::open(c"/dev/null".as_ptr(), libc::O_WRONLY);
        libc::dup2(null_r, 0);
        libc::dup2(null_w, 1);
        libc::close(null_r);
        libc::close(null_w);
        (c, o)
    };
    PROTO_FD.store(out_fd as u64, Ordering::SeqCst);
    crate::drive::install_panic_hook();

    // watchdog: a case that exceeds its limit is reported and the worker exits
    std::thread::spawn(|| {
        loop {
            std::thread::sleep(Duration::from_millis(50));
            let c = CUR_CASE.load(Ordering::SeqCst);
            if c != u64::MAX {
                let started = CUR_START_MS.load(Ordering::SeqCst);
                if now_ms().saturating_sub(started) > CUR_LIMIT_MS.load(Ordering::SeqCst)
                    && CUR_CASE.load(Ordering::SeqCst) == c
                {
                    proto_write(&format!("H {c}\n"));
                    unsafe { libc::_exit(97) };
                }
            }
        }
    });

    let spaces = crate::props::spaces(prop, tier);
    let findings = Findings::load();
    let mut ctx = crate::drive::Ctx::new();
    let cmd = unsafe { std::fs::File::from_raw_fd(cmd_fd) };
    let reader = BufReader::new(cmd);
    for line in reader.lines() {
        let Ok(line) = line else { break };
        let parts: Vec<&str> = line.split_whitespace().collect();
        match parts.as_slice() {
            ["RUN", sp, lo, hi, single] => {
                let sp: usize = sp.parse().unwrap();
                let (lo, hi): (u64, u64) = (lo.parse().unwrap(), hi.parse().unwrap());
                let single = *single == "1";
                let space = &spaces[sp];
                CUR_LIMIT_MS.store(space.case_timeout_ms(), Ordering::SeqCst);
                let r = run_chunk(space.as_ref(), &mut ctx, prop, &findings, sp, lo, hi, single);
                proto_write(&format!("R {r}\n"));
            }
            ["DESCRIBE", sp, i] => {
                let sp: usize = sp.parse().unwrap();
                let i: u64 = i.parse().unwrap();
                let d = spaces[sp].describe(i);
                proto_write(&format!("D {}\n", J::String(d)));
            }
            ["QUIT"] => break,
            _ => {}
        }
    }
    unsafe { libc::_exit(0) }
}

#[allow(clippy::too_many_arguments)]
fn run_chunk(
    space: &dyn Space,
    ctx: &mut crate::drive::Ctx,
    prop: &str,
    findings: &Findings,
    sp: usize,
    lo: u64,
    hi: u64,
    single: bool,
) -> J {
    let mut evals = 0u64;
    let mut nontrivial = 0u64;
    let mut classes: BTreeMap<String, u64> = BTreeMap::new();
    let mut counters: BTreeMap<&'static str, u64> = BTreeMap::new();
    let mut known: BTreeMap<String, u64> = BTreeMap::new();
    let mut unknown = Vec::new();
    let mut unknown_total = 0u64;
    let mut samples = Vec::new();
    let mut seen: HashSet<u64> = HashSet::new();
    let mut dup = 0u64;
    for i in lo..hi {
        if single {
            proto_write(&format!("S {i}\n"));
        }
        CUR_START_MS.store(now_ms(), Ordering::SeqCst);
        CUR_CASE.store(i, Ordering::SeqCst);
        let out = match std::panic::catch_unwind(std::panic::AssertUnwindSafe(|| space.run(ctx, i))) {
            Ok(o) => o,
            Err(_) => {
                // an unwinding panic that the space did not classify itself
                let msg = crate::drive::take_panic();
                Outcome::bad(
                    "panic",
                    Violation::new(format!("panic: {msg}"), space.describe(i), json!({"panic": msg})),
                )
            }
        };
        CUR_CASE.store(u64::MAX, Ordering::SeqCst);
        evals += 1;
        if out.nontrivial {
            // distinctness: hash of the case text (cheap spaces only hash the index)
            let h = crate::util::fnv64(space.describe(i).as_bytes());
            if seen.insert(h) {
                nontrivial += 1;
            } else {
                dup += 1;
            }
        }
        *classes.entry(out.class).or_insert(0) += 1;
        for (k, v) in out.counters {
            *counters.entry(k).or_insert(0) += v;
        }
        if let Some(s) = out.sample
            && samples.len() < 2
        {
            samples.push(s);
        }
        for v in out.violations {
            if let Some(fid) = findings.match_open(prop, &v.class, &v.signature) {
                *known.entry(fid).or_insert(0) += 1;
            } else {
                unknown_total += 1;
                if unknown.len() < 20 {
                    unknown.push(json!({"i": i, "class": v.class, "input": v.input,
                        "signature": v.signature, "detail": v.detail}));
                }
            }
        }
    }
    if samples.is_empty() && hi > lo {
        samples.push(J::String(space.describe(lo)));
    }
    json!({"space": sp, "lo": lo, "hi": hi, "evals": evals, "nontrivial": nontrivial,
        "dup": dup, "classes": classes, "counters": counters, "known": known,
        "unknown": unknown, "unknown_total": unknown_total, "samples": samples})
}

// ---------------------------------------------------------------------------------------
// parent side
// ---------------------------------------------------------------------------------------

#[derive(Debug, Clone)]
struct Job {
    space: usize,
    lo: u64,
    hi: u64,
    single: bool,
}

#[derive(Default, Debug)]
pub struct SpaceReport {
    pub id: String,
    pub size: u64,
    pub visited: u64,
    pub nontrivial: u64,
    pub dup: u64,
    pub classes: BTreeMap<String, u64>,
    pub samples: Vec<J>,
    pub profile: String,
}

#[derive(Default, Debug)]
pub struct Report {
    pub spaces: Vec<SpaceReport>,
    pub counters: BTreeMap<String, u64>,
    pub known: BTreeMap<String, u64>,
    pub unknown: Vec<J>,
    pub unknown_total: u64,
    pub caps_hit: Vec<String>,
    pub machinery_errors: Vec<String>,
    pub wall_s: f64,
}

struct Worker {
    child: Child,
    stdin: ChildStdin,
    stdout: BufReader<ChildStdout>,
}

fn worker_binary(profile: Profile) -> std::path::PathBuf {
    let root = crate::util::verif_root();
    root.join("target").join(profile.dir()).join(profile.cargo_profile()).join("vh")
}

fn spawn_worker(profile: Profile, prop: &str, tier: Tier) -> std::io::Result<Worker> {
    let mut child = Command::new(worker_binary(profile))
        .arg("worker")
        .arg(prop)
        .arg(tier.as_str())
        .stdin(Stdio::piped())
        .stdout(Stdio::piped())
        .stderr(Stdio::null())
        .spawn()?;
    let stdin = child.stdin.take().unwrap();
    let stdout = BufReader::new(child.stdout.take().unwrap());
    Ok(Worker { child, stdin, stdout })
}

/// Ask a worker to leave; never block on one that does not.
fn reap(mut w: Worker) {
    let _ = w.stdin.write_all(b"QUIT\n");
    let _ = w.stdin.flush();
    drop(w.stdin);
    for _ in 0..100 {
        if matches!(w.child.try_wait(), Ok(Some(_))) {
            return;
        }
        std::thread::sleep(Duration::from_millis(50));
    }
    let _ = w.child.kill();
    let _ = w.child.wait();
}

enum ChunkEnd {
    Done(J),
    Died { last_single: Option<u64>, hang: Option<u64>, status: String },
}

fn run_job(w: &mut Worker, job: &Job) -> ChunkEnd {
    let cmd = format!("RUN {} {} {} {}\n", job.space, job.lo, job.hi, u8::from(job.single));
    if w.stdin.write_all(cmd.as_bytes()).is_err() || w.stdin.flush().is_err() {
        let _ = w.child.kill();
        let st = w.child.wait().map(|s| format!("{s}")).unwrap_or_default();
        return ChunkEnd::Died { last_single: None, hang: None, status: st };
    }
    let mut last_single = None;
    let mut hang = None;
    let mut raw: Vec<u8> = Vec::new();
    loop {
        raw.clear();
        // bytes, not text: memory corruption in the code under test can put invalid UTF-8
        // into what a case reports, and that must not look like the end of the stream
        match w.stdout.read_until(b'\n', &mut raw) {
            Ok(0) | Err(_) => {
                // never wait for a worker that may still be alive
                let _ = w.child.kill();
                let st = w.child.wait().map(|s| format!("{s}")).unwrap_or_default();
                return ChunkEnd::Died { last_single, hang, status: st };
            }
            Ok(_) => {}
        }
        let line = String::from_utf8_lossy(&raw);
        let l = line.trim_end();
        if let Some(rest) = l.strip_prefix("S ") {
            last_single = rest.parse().ok();
        } else if let Some(rest) = l.strip_prefix("H ") {
            hang = rest.parse().ok();
        } else if let Some(rest) = l.strip_prefix("R ") {
            match serde_json::from_str::<J>(rest) {
                Ok(j) => return ChunkEnd::Done(j),
                Err(e) => {
                    return ChunkEnd::Died {
                        last_single,
                        hang,
                        status: format!("bad protocol line: {e}"),
                    };
                }
            }
        }
    }
}

/// latency-bound spaces (real sleeps, process spawns) may ask for more workers than cores
pub static OVERSUBSCRIBE: std::sync::atomic::AtomicUsize = std::sync::atomic::AtomicUsize::new(1);

pub fn jobs() -> usize {
    base_jobs() * OVERSUBSCRIBE.load(Ordering::SeqCst)
}

fn base_jobs() -> usize {
    std::env::var("VERIF_JOBS")
        .ok()
        .and_then(|s| s.parse().ok())
        .unwrap_or_else(|| std::thread::available_parallelism().map(|n| n.get()).unwrap_or(8))
        .max(1)
}

/// Runs every space of `prop` to completion (or until `wall_cap` fires).
pub fn run_spaces(prop: &str, tier: Tier, spaces: &[Box<dyn Space>], wall_cap: Duration) -> Report {
    let t0 = Instant::now();
    let mut report = Report::default();
    for s in spaces {
        report.spaces.push(SpaceReport {
            id: s.id(),
            size: s.size(),
            profile: s.profile().dir().to_string(),
            ..Default::default()
        });
    }
    // job queues per profile
    let mut queues: BTreeMap<&'static str, VecDeque<Job>> = BTreeMap::new();
    let njobs = jobs();
    for (si, s) in spaces.iter().enumerate() {
        let size = s.size();
        if size == 0 {
            continue;
        }
        // at least ~4 chunks per worker for balance, at most `chunk()` cases per chunk
        let target = (size / (njobs as u64 * 4)).max(1);
        let chunk = s.chunk().min(target).max(1);
        let q = queues.entry(s.profile().dir()).or_default();
        let mut lo = 0;
        while lo < size {
            let hi = (lo + chunk).min(size);
            q.push_back(Job { space: si, lo, hi, single: false });
            lo = hi;
        }
    }
    // determinism self-check: the first cases of every cheap space are run twice (fresh
    // worker each time) and must give identical outcome histograms
    for (si, s) in spaces.iter().enumerate() {
        if s.chunk() == 1 || s.size() == 0 {
            continue;
        }
        // heavy cases (small chunks) are self-checked on two cases only
        let k = s.size().min(if s.chunk() >= 64 { 64 } else { 2 });
        let job = Job { space: si, lo: 0, hi: k, single: false };
        let mut runs = Vec::new();
        for _ in 0..2 {
            if let Ok(mut w) = spawn_worker(s.profile(), prop, tier) {
                if let ChunkEnd::Done(j) = run_job(&mut w, &job) {
                    runs.push(json!({"classes": j["classes"], "nontrivial": j["nontrivial"], "unknown_total": j["unknown_total"]}));
                }
                reap(w);
            }
        }
        if runs.len() == 2 && runs[0] != runs[1] {
            report.machinery_errors.push(format!(
                "nondeterministic check: space {} cases 0..{k} gave {} then {}",
                s.id(), runs[0], runs[1]
            ));
        }
    }
    let report = Arc::new(Mutex::new(report));
    let capped = Arc::new(AtomicBool::new(false));
    for (pdir, q) in queues {
        let profile = if pdir == "poison" { Profile::Poison } else { Profile::Fast };
        let q = Arc::new(Mutex::new(q));
        let mut handles = Vec::new();
        for _ in 0..njobs {
            let q = Arc::clone(&q);
            let report = Arc::clone(&report);
            let capped = Arc::clone(&capped);
            let prop = prop.to_string();
            let abort_viol: Vec<bool> = spaces.iter().map(|s| s.abort_is_violation()).collect();
            let hang_viol: Vec<bool> = spaces.iter().map(|s| s.hang_is_violation()).collect();
            handles.push(std::thread::spawn(move || {
                let mut worker: Option<Worker> = None;
                loop {
                    if t0.elapsed() > wall_cap {
                        capped.store(true, Ordering::SeqCst);
                        break;
                    }
                    let job = { q.lock().unwrap().pop_front() };
                    let Some(job) = job else { break };
                    if worker.is_none() {
                        match spawn_worker(profile, &prop, tier) {
                            Ok(w) => worker = Some(w),
                            Err(e) => {
                                report
                                    .lock()
                                    .unwrap()
                                    .machinery_errors
                                    .push(format!("cannot spawn worker: {e}"));
                                break;
                            }
                        }
                    }
                    let w = worker.as_mut().unwrap();
                    match run_job(w, &job) {
                        ChunkEnd::Done(j) => merge_chunk(&mut report.lock().unwrap(), &j),
                        ChunkEnd::Died { last_single, hang, status } => {
                            worker = None;
                            if !job.single {
                                // find the culprit case by case
                                q.lock().unwrap().push_front(Job { single: true, ..job.clone() });
                                continue;
                            }
                            let culprit = hang.or(last_single);
                            let Some(i) = culprit else {
                                report.lock().unwrap().machinery_errors.push(format!(
                                    "worker died outside a case (space {} {}..{}): {status}",
                                    job.space, job.lo, job.hi
                                ));
                                continue;
                            };
                            // cases lo..i completed but their results were lost with the
                            // worker: re-run them, then continue after the culprit
                            if i > job.lo {
                                q.lock().unwrap().push_front(Job {
                                    space: job.space,
                                    lo: job.lo,
                                    hi: i,
                                    single: false,
                                });
                            }
                            if i + 1 < job.hi {
                                q.lock().unwrap().push_front(Job {
                                    space: job.space,
                                    lo: i + 1,
                                    hi: job.hi,
                                    single: true,
                                });
                            }
                            let is_hang = hang.is_some();
                            let counts = if is_hang { hang_viol[job.space] } else { abort_viol[job.space] };
                            // describe the case with a fresh worker
                            let desc = describe_case(profile, &prop, tier, job.space, i)
                                .unwrap_or_else(|| format!("<space {} case {i}>", job.space));
                            let class = if is_hang {
                                "hang".to_string()
                            } else {
                                format!("abort({})", status.replace("signal: ", "sig "))
                            };
                            let mut r = report.lock().unwrap();
                            r.spaces[job.space].visited += 1;
                            *r.spaces[job.space].classes.entry(class.clone()).or_insert(0) += 1;
                            if counts {
                                let f = Findings::load();
                                if let Some(fid) = f.match_open(&prop, &class, &desc) {
                                    *r.known.entry(fid).or_insert(0) += 1;
                                } else {
                                    r.unknown_total += 1;
                                    if r.unknown.len() < 200 {
                                        r.unknown.push(json!({"space": job.space, "i": i,
                                            "class": class, "input": desc, "signature": desc,
                                            "detail": {"status": status}}));
                                    }
                                }
                            }
                        }
                    }
                }
                if let Some(w) = worker {
                    reap(w);
                }
            }));
        }
        for h in handles {
            let _ = h.join();
        }
    }
    let mut report = Arc::try_unwrap(report).ok().unwrap().into_inner().unwrap();
    if capped.load(Ordering::SeqCst) {
        report.caps_hit.push(format!("wall cap {} s reached", wall_cap.as_secs()));
    }
    report.wall_s = t0.elapsed().as_secs_f64();
    report
}

fn describe_case(profile: Profile, prop: &str, tier: Tier, space: usize, i: u64) -> Option<String> {
    let mut w = spawn_worker(profile, prop, tier).ok()?;
    w.stdin.write_all(format!("DESCRIBE {space} {i}\nQUIT\n").as_bytes()).ok()?;
    w.stdin.flush().ok()?;
    let mut line = String::new();
    let mut out = None;
    while w.stdout.read_line(&mut line).ok()? > 0 {
        if let Some(rest) = line.trim_end().strip_prefix("D ") {
            out = serde_json::from_str::<J>(rest).ok().and_then(|j| j.as_str().map(String::from));
            break;
        }
        line.clear();
    }
    let _ = w.child.wait();
    out
}

fn merge_chunk(r: &mut Report, j: &J) {
    let sp = j["space"].as_u64().unwrap() as usize;
    let s = &mut r.spaces[sp];
    s.visited += j["evals"].as_u64().unwrap_or(0);
    s.nontrivial += j["nontrivial"].as_u64().unwrap_or(0);
    s.dup += j["dup"].as_u64().unwrap_or(0);
    if let Some(m) = j["classes"].as_object() {
        for (k, v) in m {
            *s.classes.entry(k.clone()).or_insert(0) += v.as_u64().unwrap_or(0);
        }
    }
    if let Some(a) = j["samples"].as_array() {
        let lo = j["lo"].as_u64().unwrap_or(0);
        for x in a {
            // keep the first chunk's and a few later samples
            // small spaces (one heavy case per index) keep every case's sample
            if s.samples.len() < 3 || (lo > 0 && s.samples.len() < 6) || (s.size <= 40 && s.samples.len() < 40) {
                s.samples.push(x.clone());
            }
        }
    }
    if let Some(m) = j["counters"].as_object() {
        for (k, v) in m {
            *r.counters.entry(k.clone()).or_insert(0) += v.as_u64().unwrap_or(0);
        }
    }
    if let Some(m) = j["known"].as_object() {
        for (k, v) in m {
            *r.known.entry(k.clone()).or_insert(0) += v.as_u64().unwrap_or(0);
        }
    }
    r.unknown_total += j["unknown_total"].as_u64().unwrap_or(0);
    if let Some(a) = j["unknown"].as_array() {
        for v in a {
            if r.unknown.len() < 200 {
                let mut v = v.clone();
                v["space"] = json!(sp);
                r.unknown.push(v);
            }
        }
    }
}
