// placeholder
