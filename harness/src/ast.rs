//! The harness's own AST and pretty-printer. Nothing here is shared with the real front end:
//! programs are generated as these trees, printed to text, and only the text reaches the
//! implementation.

#[derive(Clone, Copy, Debug, PartialEq, Eq, Hash)]
pub enum Op {
    Add,
    Sub,
    Mul,
    Div,
    Mod,
    And,
    Or,
    Eq,
    Gt,
    Lt,
}

impl Op {
    pub fn words(self) -> &'static [&'static str] {
        match self {
            Op::Add => &["add"],
            Op::Sub => &["minus"],
            Op::Mul => &["times"],
            Op::Div => &["divide"],
            Op::Mod => &["mod"],
            Op::And => &["and"],
            Op::Or => &["or"],
            Op::Eq => &["na"],
            Op::Gt => &["pass"],
            Op::Lt => &["small", "pass"],
        }
    }
    /// documented precedence, lowest to highest
    pub fn prec(self) -> u8 {
        match self {
            Op::Or => 1,
            Op::And => 2,
            Op::Eq | Op::Gt | Op::Lt => 3,
            Op::Add | Op::Sub => 4,
            Op::Mul | Op::Div | Op::Mod => 5,
        }
    }
    pub fn is_cmp(self) -> bool {
        matches!(self, Op::Eq | Op::Gt | Op::Lt)
    }
}

/// String literal part. `Lit` holds the *actual* text (unescaped).
#[derive(Clone, Debug, PartialEq, Eq, Hash)]
pub enum SP {
    Lit(String),
    Var(String),
}

#[derive(Clone, Debug, PartialEq)]
pub enum E {
    Num(String),
    Str(Vec<SP>),
    Bool(bool),
    Null,
    Var(String),
    Bin(Op, Box<E>, Box<E>),
    Not(Box<E>),
    Neg(Box<E>),
    Arr(Vec<E>),
    Idx(Box<E>, Box<E>),
    Call(String, Vec<E>),
    Meth(Box<E>, String, Vec<E>),
    /// explicit redundant parentheses (C10)
    Paren(Box<E>),
}

#[derive(Clone, Debug, PartialEq)]
pub enum S {
    Make(String, Option<E>),
    Set(String, E),
    SetIdx(E, E),
    If(E, Vec<S>, Option<Vec<S>>),
    Loop(E, Vec<S>),
    Block(Vec<S>),
    Func(String, Vec<String>, Vec<S>),
    Ret(Option<E>),
    Break,
    Next,
    Expr(E),
}

// convenience constructors -------------------------------------------------------------

pub fn num(s: &str) -> E {
    E::Num(s.to_string())
}
pub fn st(s: &str) -> E {
    E::Str(vec![SP::Lit(s.to_string())])
}
pub fn var(s: &str) -> E {
    E::Var(s.to_string())
}
pub fn bin(op: Op, a: E, b: E) -> E {
    E::Bin(op, Box::new(a), Box::new(b))
}
pub fn call(f: &str, args: Vec<E>) -> E {
    E::Call(f.to_string(), args)
}
pub fn meth(r: E, m: &str, args: Vec<E>) -> E {
    E::Meth(Box::new(r), m.to_string(), args)
}
pub fn idx(a: E, i: E) -> E {
    E::Idx(Box::new(a), Box::new(i))
}
pub fn shout(e: E) -> S {
    S::Expr(call("shout", vec![e]))
}
pub fn make(v: &str, e: E) -> S {
    S::Make(v.to_string(), Some(e))
}
pub fn set(v: &str, e: E) -> S {
    S::Set(v.to_string(), e)
}
pub fn func(name: &str, params: &[&str], body: Vec<S>) -> S {
    S::Func(name.to_string(), params.iter().map(|p| (*p).to_string()).collect(), body)
}

// tokens -------------------------------------------------------------------------------

#[derive(Clone, Debug, PartialEq, Eq)]
pub enum TK {
    Word,
    Num,
    Str,
    Punct,
}

#[derive(Clone, Debug, PartialEq, Eq)]
pub struct Tok {
    pub text: String,
    pub kind: TK,
    /// this word and the next belong to one multi-word keyword (`if to say`, `small pass`)
    pub kw_inner: bool,
}

fn w(out: &mut Vec<Tok>, s: &str) {
    out.push(Tok { text: s.to_string(), kind: TK::Word, kw_inner: false });
}
fn words(out: &mut Vec<Tok>, ws: &[&str]) {
    for (i, x) in ws.iter().enumerate() {
        out.push(Tok { text: (*x).to_string(), kind: TK::Word, kw_inner: i + 1 < ws.len() });
    }
}
fn p(out: &mut Vec<Tok>, s: &str) {
    out.push(Tok { text: s.to_string(), kind: TK::Punct, kw_inner: false });
}

/// Prints a string literal. Returns None if the literal cannot be expressed faithfully by
/// the documented syntax (an escape sequence together with a placeholder or brace).
pub fn string_literal(parts: &[SP]) -> Option<String> {
    let needs_escape = parts.iter().any(|x| match x {
        SP::Lit(t) => t.contains(['"', '\\', '\n', '\t', '\r']),
        SP::Var(_) => false,
    });
    let has_open = parts.iter().any(|x| match x {
        SP::Lit(t) => t.contains('{'),
        SP::Var(_) => true,
    });
    let has_brace = has_open
        || parts.iter().any(|x| matches!(x, SP::Lit(t) if t.contains('}')));
    let _ = (needs_escape, has_brace); // escapes and placeholders mix freely (D31 repaired)
    let mut s = String::from("\"");
    for part in parts {
        match part {
            SP::Var(v) => {
                s.push('{');
                s.push_str(v);
                s.push('}');
            }
            SP::Lit(t) => {
                for c in t.chars() {
                    match c {
                        '"' => s.push_str("\\\""),
                        '\\' => s.push_str("\\\\"),
                        '\n' => s.push_str("\\n"),
                        '\t' => s.push_str("\\t"),
                        '\r' => return None,
                        '{' => s.push_str("{{"),
                        '}' if has_open => s.push_str("}}"),
                        c => s.push(c),
                    }
                }
            }
        }
    }
    s.push('"');
    Some(s)
}

fn prec_of(e: &E) -> u8 {
    match e {
        E::Bin(op, ..) => op.prec(),
        E::Not(_) | E::Neg(_) => 6,
        _ => 7,
    }
}

fn expr_toks(e: &E, out: &mut Vec<Tok>) {
    match e {
        E::Num(n) => out.push(Tok { text: n.clone(), kind: TK::Num, kw_inner: false }),
        E::Str(parts) => out.push(Tok {
            text: string_literal(parts).unwrap_or_else(|| "\"<unprintable>\"".into()),
            kind: TK::Str,
            kw_inner: false,
        }),
        E::Bool(b) => w(out, if *b { "true" } else { "false" }),
        E::Null => w(out, "null"),
        E::Var(v) => w(out, v),
        E::Paren(x) => {
            p(out, "(");
            expr_toks(x, out);
            p(out, ")");
        }
        E::Bin(op, a, b) => {
            // left-associative: left child needs parens when it binds looser; right child when
            // it does not bind tighter. A unary as the left operand of a comparison is always
            // parenthesised (relative placing of `not` and comparisons is not documented).
            let lp = prec_of(a) < op.prec() || (op.is_cmp() && prec_of(a) == 6);
            let rp = prec_of(b) <= op.prec();
            paren_if(lp, a, out);
            words(out, op.words());
            paren_if(rp, b, out);
        }
        E::Not(x) | E::Neg(x) => {
            w(out, if matches!(e, E::Not(_)) { "not" } else { "minus" });
            // operand that is itself binary is always parenthesised
            paren_if(prec_of(x) < 6, x, out);
        }
        E::Arr(items) => {
            p(out, "[");
            for (i, it) in items.iter().enumerate() {
                if i > 0 {
                    p(out, ",");
                }
                expr_toks(it, out);
            }
            p(out, "]");
        }
        E::Idx(a, i) => {
            postfix_base(a, out);
            p(out, "[");
            expr_toks(i, out);
            p(out, "]");
        }
        E::Call(f, args) => {
            w(out, f);
            arg_toks(args, out);
        }
        E::Meth(r, m, args) => {
            postfix_base(r, out);
            p(out, ".");
            w(out, m);
            arg_toks(args, out);
        }
    }
}

fn arg_toks(args: &[E], out: &mut Vec<Tok>) {
    p(out, "(");
    for (i, a) in args.iter().enumerate() {
        if i > 0 {
            p(out, ",");
        }
        expr_toks(a, out);
    }
    p(out, ")");
}

fn postfix_base(a: &E, out: &mut Vec<Tok>) {
    // integer literals need parentheses before `.` (`9.` would lex as a malformed number),
    // and anything that is not primary does too
    let needs = match a {
        E::Num(n) => !n.contains('.'),
        x => prec_of(x) < 7,
    };
    paren_if(needs, a, out);
}

fn paren_if(c: bool, e: &E, out: &mut Vec<Tok>) {
    if c {
        p(out, "(");
        expr_toks(e, out);
        p(out, ")");
    } else {
        expr_toks(e, out);
    }
}

fn block_toks(b: &[S], out: &mut Vec<Tok>) {
    w(out, "start");
    for s in b {
        stmt_toks(s, out);
    }
    w(out, "end");
}

pub fn stmt_toks(s: &S, out: &mut Vec<Tok>) {
    match s {
        S::Make(v, e) => {
            w(out, "make");
            w(out, v);
            if let Some(e) = e {
                w(out, "get");
                expr_toks(e, out);
            }
        }
        S::Set(v, e) => {
            w(out, v);
            w(out, "get");
            expr_toks(e, out);
        }
        S::SetIdx(t, e) => {
            expr_toks(t, out);
            w(out, "get");
            expr_toks(e, out);
        }
        S::If(c, t, e) => {
            words(out, &["if", "to", "say"]);
            p(out, "(");
            expr_toks(c, out);
            p(out, ")");
            block_toks(t, out);
            if let Some(e) = e {
                words(out, &["if", "not", "so"]);
                block_toks(e, out);
            }
        }
        S::Loop(c, b) => {
            w(out, "jasi");
            p(out, "(");
            expr_toks(c, out);
            p(out, ")");
            block_toks(b, out);
        }
        S::Block(b) => block_toks(b, out),
        S::Func(name, params, body) => {
            w(out, "do");
            w(out, name);
            p(out, "(");
            for (i, q) in params.iter().enumerate() {
                if i > 0 {
                    p(out, ",");
                }
                w(out, q);
            }
            p(out, ")");
            block_toks(body, out);
        }
        S::Ret(e) => {
            w(out, "return");
            if let Some(e) = e {
                expr_toks(e, out);
            }
        }
        S::Break => w(out, "comot"),
        S::Next => w(out, "next"),
        S::Expr(e) => expr_toks(e, out),
    }
}

pub fn prog_toks(prog: &[S]) -> Vec<Tok> {
    let mut out = Vec::new();
    for s in prog {
        stmt_toks(s, &mut out);
    }
    out
}

/// Canonical layout: single spaces between tokens, none around punctuation where the
/// token boundaries stay unambiguous.
pub fn print(prog: &[S]) -> String {
    join_toks(&prog_toks(prog))
}

pub fn join_toks(toks: &[Tok]) -> String {
    let mut s = String::new();
    for (i, t) in toks.iter().enumerate() {
        if i > 0 {
            let prev = &toks[i - 1];
            let tight = matches!(
                (prev.text.as_str(), t.text.as_str()),
                ("(", _) | (_, ")") | ("[", _) | (_, "]") | (_, ",") | (".", _) | (_, ".")
            ) || (t.text == "(" && prev.kind == TK::Word && !is_kw(&prev.text))
                || (t.text == "[" && (prev.kind == TK::Word && !is_kw(&prev.text) || prev.text == "]" || prev.text == ")"));
            if !tight {
                s.push(' ');
            }
        }
        s.push_str(&t.text);
    }
    s
}

pub fn is_kw(t: &str) -> bool {
    matches!(
        t,
        "make" | "get" | "add" | "minus" | "times" | "divide" | "mod" | "and" | "or" | "not" | "jasi"
            | "start" | "end" | "comot" | "next" | "na" | "pass" | "small" | "if" | "to" | "say"
            | "so" | "true" | "false" | "null" | "do" | "return"
    )
}

/// A bare `return` swallows a following expression statement (there is no statement
/// separator): such programs cannot be printed faithfully.
pub fn printable(prog: &[S]) -> bool {
    fn blk(b: &[S]) -> bool {
        for (i, s) in b.iter().enumerate() {
            if matches!(s, S::Ret(None)) && i + 1 < b.len() {
                return false;
            }
            if !stmt(s) {
                return false;
            }
        }
        true
    }
    fn stmt(s: &S) -> bool {
        match s {
            S::If(_, t, e) => blk(t) && e.as_ref().is_none_or(|e| blk(e)),
            S::Loop(_, b) | S::Block(b) | S::Func(_, _, b) => blk(b),
            _ => true,
        }
    }
    blk(prog)
}

// ---------------------------------------------------------------------------------------
// statement positions (for mapping a diagnostic span back to the harness AST)
// ---------------------------------------------------------------------------------------

fn mark_block(b: &[S], out: &mut Vec<Tok>, marks: &mut Vec<usize>) {
    for s in b {
        marks.push(out.len());
        match s {
            S::If(c, t, e) => {
                words(out, &["if", "to", "say"]);
                p(out, "(");
                expr_toks(c, out);
                p(out, ")");
                w(out, "start");
                mark_block(t, out, marks);
                w(out, "end");
                if let Some(e) = e {
                    words(out, &["if", "not", "so"]);
                    w(out, "start");
                    mark_block(e, out, marks);
                    w(out, "end");
                }
            }
            S::Loop(c, b) => {
                w(out, "jasi");
                p(out, "(");
                expr_toks(c, out);
                p(out, ")");
                w(out, "start");
                mark_block(b, out, marks);
                w(out, "end");
            }
            S::Block(b) => {
                w(out, "start");
                mark_block(b, out, marks);
                w(out, "end");
            }
            S::Func(name, params, body) => {
                w(out, "do");
                w(out, name);
                p(out, "(");
                for (i, q) in params.iter().enumerate() {
                    if i > 0 {
                        p(out, ",");
                    }
                    w(out, q);
                }
                p(out, ")");
                w(out, "start");
                mark_block(body, out, marks);
                w(out, "end");
            }
            other => stmt_toks(other, out),
        }
    }
}

/// canonical text plus the byte offset at which every statement starts, in pre-order
pub fn print_with_offsets(prog: &[S]) -> (String, Vec<usize>) {
    let mut toks = Vec::new();
    let mut marks = Vec::new();
    mark_block(prog, &mut toks, &mut marks);
    // byte offset of every token in the joined text
    let text = join_toks(&toks);
    let mut offs = Vec::with_capacity(toks.len() + 1);
    let mut pos = 0usize;
    for (i, t) in toks.iter().enumerate() {
        if i > 0 && text.as_bytes().get(pos) == Some(&b' ') && !text[pos..].starts_with(&t.text) {
            pos += 1;
        }
        debug_assert!(text[pos..].starts_with(&t.text));
        offs.push(pos);
        pos += t.text.len();
    }
    offs.push(text.len());
    (text, marks.into_iter().map(|m| offs[m.min(offs.len() - 1)]).collect())
}

/// applies `f` to the `k`-th statement in pre-order; returns None if `f` declines
pub fn replace_stmt(prog: &[S], k: usize, f: &dyn Fn(&S) -> Option<S>) -> Option<Vec<S>> {
    fn go(b: &[S], k: usize, n: &mut usize, f: &dyn Fn(&S) -> Option<S>, done: &mut bool) -> Option<Vec<S>> {
        let mut out = Vec::with_capacity(b.len());
        for s in b {
            let me = *n;
            *n += 1;
            if me == k {
                out.push(f(s)?);
                *done = true;
                continue;
            }
            out.push(match s {
                S::If(c, t, e) => {
                    let t2 = go(t, k, n, f, done)?;
                    let e2 = match e {
                        Some(e) => Some(go(e, k, n, f, done)?),
                        None => None,
                    };
                    S::If(c.clone(), t2, e2)
                }
                S::Loop(c, b) => S::Loop(c.clone(), go(b, k, n, f, done)?),
                S::Block(b) => S::Block(go(b, k, n, f, done)?),
                S::Func(name, ps, b) => S::Func(name.clone(), ps.clone(), go(b, k, n, f, done)?),
                other => other.clone(),
            });
        }
        Some(out)
    }
    let mut n = 0;
    let mut done = false;
    let r = go(prog, k, &mut n, f, &mut done)?;
    if done { Some(r) } else { None }
}
