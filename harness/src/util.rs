use std::path::PathBuf;

pub fn verif_root() -> PathBuf {
    if let Ok(p) = std::env::var("VERIF_ROOT") {
        return PathBuf::from(p);
    }
    PathBuf::from("/verif")
}

/// the subject's source tree (always /repo for a check run from /verif, see ./check)
pub fn repo_root() -> String {
    std::env::var("VERIF_REPO").unwrap_or_else(|_| "/repo".into())
}

pub fn fnv64(b: &[u8]) -> u64 {
    let mut h: u64 = 0xcbf2_9ce4_8422_2325;
    for &x in b {
        h ^= u64::from(x);
        h = h.wrapping_mul(0x0000_0100_0000_01b3);
    }
    h
}

pub fn seed() -> i64 {
    std::env::var("VERIF_SEED").ok().and_then(|s| s.parse().ok()).unwrap_or(0)
}

/// Mixed-radix decoding helper: returns digit for `radix` and divides `i`.
#[inline]
pub fn take(i: &mut u64, radix: u64) -> u64 {
    let d = *i % radix;
    *i /= radix;
    d
}

/// All strings over `alphabet` with length in 0..=max_len, ordered by length then
/// lexicographically by alphabet position; `nth` unranks.
#[derive(Clone)]
pub struct Strings {
    pub alphabet: Vec<String>,
    pub max_len: u32,
}

impl Strings {
    pub fn new(alphabet: &[&str], max_len: u32) -> Self {
        Strings { alphabet: alphabet.iter().map(|s| (*s).to_string()).collect(), max_len }
    }
    pub fn count_len(&self, len: u32) -> u64 {
        (self.alphabet.len() as u64).pow(len)
    }
    pub fn count(&self) -> u64 {
        (0..=self.max_len).map(|l| self.count_len(l)).sum()
    }
    pub fn nth(&self, mut i: u64) -> String {
        let mut len = 0;
        while i >= self.count_len(len) {
            i -= self.count_len(len);
            len += 1;
        }
        let k = self.alphabet.len() as u64;
        let mut parts = Vec::with_capacity(len as usize);
        for _ in 0..len {
            parts.push(&self.alphabet[(i % k) as usize]);
            i /= k;
        }
        parts.reverse();
        parts.into_iter().map(String::as_str).collect()
    }
}
