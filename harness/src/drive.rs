//! Drivers for the real pipeline: modes M0..M3, front end only, canonical observation.

use std::cell::RefCell;
use std::panic::{AssertUnwindSafe, catch_unwind};

use naijascript::arena::Arena;
use naijascript::diagnostics::{Diagnostics, Severity};
use naijascript::process::HostPolicy;
use naijascript::resolver::Resolver;
use naijascript::runtime::{Runtime, Value};
use naijascript::syntax::parser::Parser;
use naijascript::syntax::scanner::Lexer;
use naijascript::verif_hooks::{self, RuntimeTrace};

/// Typed output value (what `shout` received), compared structurally.
#[derive(Debug, Clone, PartialEq, Eq, Hash)]
pub enum TV {
    N(u64),
    S(Vec<u8>),
    B(bool),
    Z,
    A(Vec<TV>),
    H(String),
}

impl TV {
    pub fn num(f: f64) -> TV {
        // all NaNs are one value
        TV::N(if f.is_nan() { f64::NAN.to_bits() } else { f.to_bits() })
    }
    pub fn s(s: &str) -> TV {
        TV::S(s.as_bytes().to_vec())
    }
    pub fn from_value(v: &Value<'_>) -> TV {
        match v {
            Value::Number(n) => TV::num(*n),
            Value::Str(s) => TV::S(s.as_bytes().to_vec()),
            Value::Bool(b) => TV::B(*b),
            Value::Null => TV::Z,
            Value::Array(items) => TV::A(items.iter().map(TV::from_value).collect()),
            Value::Host(_) => TV::H(format!("{v}")),
        }
    }
    pub fn show(&self) -> String {
        match self {
            TV::N(b) => format!("N:{}", f64::from_bits(*b)),
            TV::S(b) => format!("S:{:?}", String::from_utf8_lossy(b)),
            TV::B(b) => format!("B:{b}"),
            TV::Z => "Z".into(),
            TV::A(v) => format!("A[{}]", v.iter().map(TV::show).collect::<Vec<_>>().join(",")),
            TV::H(s) => format!("H:{s}"),
        }
    }
}

#[derive(Debug, Clone, PartialEq, Eq)]
pub enum End {
    Normal,
    RuntimeError(String),
    Panic(String),
}

#[derive(Debug, Clone, PartialEq, Eq)]
pub struct Diag {
    pub stage: &'static str,
    pub severity: &'static str,
    pub message: String,
    pub span: (usize, usize),
}

#[derive(Debug, Clone, PartialEq, Eq)]
pub enum Front {
    Accepted,
    /// error-level diagnostics of the stage that rejected (parse or semantic)
    Rejected(Vec<Diag>),
    Panic(String),
}

#[derive(Debug, Clone)]
pub struct Obs {
    pub front: Front,
    pub warns: Vec<Diag>,
    pub out: Vec<TV>,
    pub end: End,
    pub trace: RuntimeTrace,
    pub executed: Option<Vec<u32>>,
    /// source spans of the executed statements (when recorded)
    pub executed_spans: Vec<(usize, usize)>,
    /// spans of all function definition statements (filled together with executed_spans)
    pub funcdef_spans: Vec<(usize, usize)>,
    pub removable_functions: usize,
    pub plan_some: bool,
    pub removable_stmts: Vec<u32>,
}

impl Obs {
    /// The part that C01/C02/C03 compare.
    pub fn behaviour(&self) -> (&Front, &Vec<TV>, &End) {
        (&self.front, &self.out, &self.end)
    }
    pub fn show(&self) -> String {
        let out: Vec<String> = self.out.iter().map(TV::show).collect();
        let front = match &self.front {
            Front::Accepted => "accepted".to_string(),
            Front::Rejected(d) => format!(
                "rejected[{}]",
                d.iter().map(|d| format!("{}:{}", d.stage, d.message)).collect::<Vec<_>>().join("; ")
            ),
            Front::Panic(m) => format!("front-panic[{m}]"),
        };
        format!("{front} out=[{}] end={:?}", out.join(" "), self.end)
    }
}

#[derive(Clone, Copy, PartialEq, Eq, Debug)]
pub struct Mode {
    pub frame: bool,
    pub plan: bool,
}

pub const M0: Mode = Mode { frame: true, plan: true };
pub const M1: Mode = Mode { frame: false, plan: true };
pub const M2: Mode = Mode { frame: true, plan: false };
pub const M3: Mode = Mode { frame: false, plan: false };

impl Mode {
    pub fn name(self) -> &'static str {
        match (self.frame, self.plan) {
            (true, true) => "M0",
            (false, true) => "M1",
            (true, false) => "M2",
            (false, false) => "M3",
        }
    }
}

thread_local! {
    static LAST_PANIC: RefCell<Option<String>> = const { RefCell::new(None) };
}

pub fn install_panic_hook() {
    std::panic::set_hook(Box::new(|info| {
        let msg = if let Some(s) = info.payload().downcast_ref::<&str>() {
            (*s).to_string()
        } else if let Some(s) = info.payload().downcast_ref::<String>() {
            s.clone()
        } else {
            "<non-string panic>".to_string()
        };
        let loc = info.location().map(|l| l.file().to_string()).unwrap_or_default();
        // message first line, file without line number: stable across unrelated edits
        let first = msg.lines().next().unwrap_or("").chars().take(120).collect::<String>();
        LAST_PANIC.with(|p| *p.borrow_mut() = Some(format!("{first} @{loc}")));
    }));
}

pub fn take_panic() -> String {
    LAST_PANIC.with(|p| p.borrow_mut().take()).unwrap_or_else(|| "<panic>".to_string())
}

/// Per-worker state: arenas are created once and reset between cases.
pub struct Ctx {
    pub main: Arena,
    pub frame: Arena,
    pub aux: Arena,
    pub policy: HostPolicy,
}

pub const MAIN_CAP: usize = 1 << 30;
pub const FRAME_CAP: usize = 1 << 30;

impl Ctx {
    pub fn new() -> Self {
        Ctx {
            main: Arena::new(MAIN_CAP).expect("reserve main arena"),
            frame: Arena::new(FRAME_CAP).expect("reserve frame arena"),
            aux: Arena::new(1 << 28).expect("reserve aux arena"),
            policy: HostPolicy::default(),
        }
    }

    pub fn reset(&self) {
        unsafe {
            self.main.reset(0);
            self.frame.reset(0);
            self.aux.reset(0);
        }
    }

    /// Decommit when a case has grown the arenas a lot (keeps RSS bounded).
    pub fn trim(&self) {
        self.main.decommit();
        self.frame.decommit();
        self.aux.decommit();
    }
}

fn diags(stage_default: &'static str, d: &Diagnostics<'_>, only: Option<Severity>) -> Vec<Diag> {
    d.diagnostics
        .iter()
        .filter(|x| only.is_none_or(|s| x.severity == s))
        .map(|x| Diag {
            stage: if x.code.is_empty() { stage_default } else { x.code },
            severity: match x.severity {
                Severity::Error => "error",
                Severity::Warning => "warning",
                Severity::Note => "note",
            },
            message: x.message.to_string(),
            span: (x.span.start, x.span.end),
        })
        .collect()
}

#[derive(Clone, Copy, Default)]
pub struct RunOpts {
    pub record_executed: bool,
}

/// Runs `src` through the real lexer → parser → resolver → runtime as tests/common.rs wires
/// it (separate owned arenas), in the given mode.
pub fn run_pipeline(ctx: &Ctx, src: &str, mode: Mode, opts: RunOpts) -> Obs {
    ctx.reset();
    let arena = &ctx.main;
    let frame = &ctx.frame;
    let policy = ctx.policy;
    let mut obs = Obs {
        front: Front::Accepted,
        warns: vec![],
        out: vec![],
        end: End::Normal,
        trace: RuntimeTrace::default(),
        executed: None,
        executed_spans: vec![],
        funcdef_spans: vec![],
        removable_functions: 0,
        plan_some: false,
        removable_stmts: vec![],
    };
    let r = catch_unwind(AssertUnwindSafe(|| {
        let lexer = Lexer::new(src, arena);
        let mut parser = Parser::new(lexer, arena);
        let (root, perr) = parser.parse_program();
        if !perr.diagnostics.is_empty() {
            obs.front = Front::Rejected(diags("syntax", perr, None));
            return;
        }
        let mut resolver = Resolver::new(arena);
        resolver.resolve(root);
        if resolver.errors.has_errors() {
            obs.front = Front::Rejected(diags("semantic", &resolver.errors, Some(Severity::Error)));
            return;
        }
        obs.warns = diags("semantic", &resolver.errors, None);
        obs.plan_some = resolver.optimization_plan.is_some();
        if let Some(p) = resolver.optimization_plan.as_ref() {
            obs.removable_stmts = p.removable_stmts.iter().map(|s| s.0).collect();
            obs.removable_functions = p.removable_function_defs.len();
        }
        let mut rt =
            Runtime::new_with_host_policy(arena, if mode.frame { Some(frame) } else { None }, policy);
        let plan = if mode.plan { resolver.optimization_plan.as_ref() } else { None };
        verif_hooks::trace_begin(opts.record_executed);
        // phase marker: a panic from here on is a run-time panic
        FRONT_DONE.with(|f| f.set(true));
        let r = catch_unwind(AssertUnwindSafe(|| {
            rt.run_with_analysis(root, &resolver.facts, plan);
        }));
        let (trace, executed) = verif_hooks::trace_end();
        obs.trace = trace;
        if let Some(ids) = &executed {
            let mut ids = ids.clone();
            ids.sort_unstable();
            ids.dedup();
            for id in ids {
                if let Some(e) = resolver.facts.stmt_effects.get(id as usize) {
                    obs.executed_spans.push(stmt_span(e.stmt));
                }
            }
        }
        if executed.is_some() {
            for e in resolver.facts.stmt_effects.iter() {
                if matches!(e.stmt, naijascript::syntax::parser::Stmt::FunctionDef { .. }) {
                    obs.funcdef_spans.push(stmt_span(e.stmt));
                }
            }
        }
        obs.executed = executed;
        // output is valid up to the panic point as well
        let out_ok = catch_unwind(AssertUnwindSafe(|| {
            rt.output.iter().map(TV::from_value).collect::<Vec<_>>()
        }));
        obs.out = out_ok.unwrap_or_default();
        match r {
            Ok(()) => {
                if let Some(d) = rt.errors.diagnostics.iter().find(|d| d.severity == Severity::Error)
                {
                    obs.end = End::RuntimeError(d.message.to_string());
                }
            }
            Err(_) => obs.end = End::Panic(take_panic()),
        }
    }));
    let front_done = FRONT_DONE.with(|f| f.replace(false));
    if r.is_err() {
        let msg = take_panic();
        if front_done {
            obs.end = End::Panic(msg);
        } else {
            obs.front = Front::Panic(msg);
        }
    }
    obs
}

fn stmt_span(s: &naijascript::syntax::parser::Stmt<'_>) -> (usize, usize) {
    use naijascript::syntax::parser::Stmt;
    let sp = match s {
        Stmt::FunctionDef { span, .. }
        | Stmt::Assign { span, .. }
        | Stmt::AssignExisting { span, .. }
        | Stmt::AssignIndex { span, .. }
        | Stmt::If { span, .. }
        | Stmt::Loop { span, .. }
        | Stmt::Block { span, .. }
        | Stmt::Return { span, .. }
        | Stmt::Break { span }
        | Stmt::Continue { span }
        | Stmt::Expression { span, .. } => span,
    };
    (sp.start, sp.end)
}

thread_local! {
    static FRONT_DONE: std::cell::Cell<bool> = const { std::cell::Cell::new(false) };
}

/// Front end only: lexer, parser and — if the parse was clean, as the CLI does — resolver.
/// Returns acceptance plus *all* diagnostics (errors and warnings).
pub fn run_front(ctx: &Ctx, src: &str) -> (Front, Vec<Diag>) {
    ctx.reset();
    let arena = &ctx.main;
    let r = catch_unwind(AssertUnwindSafe(|| {
        let lexer = Lexer::new(src, arena);
        let mut parser = Parser::new(lexer, arena);
        let (root, perr) = parser.parse_program();
        if !perr.diagnostics.is_empty() {
            let d = diags("syntax", perr, None);
            return (Front::Rejected(d.clone()), d);
        }
        let mut resolver = Resolver::new(arena);
        resolver.resolve(root);
        let all = diags("semantic", &resolver.errors, None);
        if resolver.errors.has_errors() {
            (Front::Rejected(diags("semantic", &resolver.errors, Some(Severity::Error))), all)
        } else {
            (Front::Accepted, all)
        }
    }));
    match r {
        Ok(x) => x,
        Err(_) => (Front::Panic(take_panic()), vec![]),
    }
}

/// What C07 checks of the front end on one text. Err = (class, detail).
#[derive(Default, Debug)]
pub struct FrontStats {
    pub tokens: usize,
    pub diagnostics: usize,
    pub errors: usize,
    pub parsed_clean: bool,
    pub rendered_bytes: usize,
}

fn span_ok(src: &str, s: usize, e: usize) -> Option<&'static str> {
    if s > e {
        return Some("span-start-after-end");
    }
    if e > src.len() {
        return Some("span-beyond-text");
    }
    if !src.is_char_boundary(s) || !src.is_char_boundary(e) {
        return Some("span-off-char-boundary");
    }
    None
}

fn check_diags(src: &str, d: &Diagnostics<'_>, stage: &str) -> Result<(), (String, String)> {
    for x in &d.diagnostics {
        if let Some(w) = span_ok(src, x.span.start, x.span.end) {
            return Err((format!("diagnostic-{w}"), format!("{stage}: {} span {}..{} len {}", x.message, x.span.start, x.span.end, src.len())));
        }
        for l in &x.labels {
            if let Some(w) = span_ok(src, l.span.start, l.span.end) {
                return Err((format!("label-{w}"), format!("{stage}: {} label span {}..{} len {}", x.message, l.span.start, l.span.end, src.len())));
            }
        }
    }
    Ok(())
}

/// Height (in nodes: statements, blocks' statements, expressions) of the tree the parser builds
/// for `src`, or None if the parser reports any diagnostic. Iterative, so a very tall accepted
/// tree cannot overflow the harness itself.
pub fn parsed_tree_height(ctx: &Ctx, src: &str) -> Result<Option<usize>, String> {
    use naijascript::syntax::parser::{Block, Expr, Stmt};
    ctx.reset();
    let arena = &ctx.main;
    let r = catch_unwind(AssertUnwindSafe(|| {
        let lexer = Lexer::new(src, arena);
        let mut parser = Parser::new(lexer, arena);
        let (root, perr) = parser.parse_program();
        if !perr.diagnostics.is_empty() {
            return None;
        }
        enum N<'a> {
            B(&'a Block<'a>),
            S(&'a Stmt<'a>),
            E(&'a Expr<'a>),
        }
        let mut max = 0usize;
        let mut stack: Vec<(N<'_>, usize)> = vec![(N::B(root), 0)];
        while let Some((n, d)) = stack.pop() {
            max = max.max(d);
            match n {
                N::B(b) => {
                    for s in b.stmts {
                        stack.push((N::S(s), d + 1));
                    }
                }
                N::S(s) => match s {
                    Stmt::FunctionDef { body, .. } => stack.push((N::B(body), d)),
                    Stmt::Assign { expr, .. } | Stmt::AssignExisting { expr, .. } | Stmt::Expression { expr, .. } => stack.push((N::E(expr), d + 1)),
                    Stmt::AssignIndex { target, expr, .. } => {
                        stack.push((N::E(target), d + 1));
                        stack.push((N::E(expr), d + 1));
                    }
                    Stmt::If { cond, then_b, else_b, .. } => {
                        stack.push((N::E(cond), d + 1));
                        stack.push((N::B(then_b), d));
                        if let Some(e) = else_b {
                            stack.push((N::B(e), d));
                        }
                    }
                    Stmt::Loop { cond, body, .. } => {
                        stack.push((N::E(cond), d + 1));
                        stack.push((N::B(body), d));
                    }
                    Stmt::Block { block, .. } => stack.push((N::B(block), d)),
                    Stmt::Return { expr, .. } => {
                        if let Some(e) = expr {
                            stack.push((N::E(e), d + 1));
                        }
                    }
                    Stmt::Break { .. } | Stmt::Continue { .. } => {}
                },
                N::E(e) => match e {
                    Expr::Index { array, index, .. } => {
                        stack.push((N::E(array), d + 1));
                        stack.push((N::E(index), d + 1));
                    }
                    Expr::Binary { lhs, rhs, .. } => {
                        stack.push((N::E(lhs), d + 1));
                        stack.push((N::E(rhs), d + 1));
                    }
                    Expr::Call { callee, args, .. } => {
                        stack.push((N::E(callee), d + 1));
                        for a in args.args {
                            stack.push((N::E(a), d + 1));
                        }
                    }
                    Expr::Array { elements, .. } => {
                        for a in *elements {
                            stack.push((N::E(a), d + 1));
                        }
                    }
                    Expr::Unary { expr, .. } => stack.push((N::E(expr), d + 1)),
                    Expr::Member { object, .. } => stack.push((N::E(object), d + 1)),
                    Expr::String { .. } | Expr::Number(..) | Expr::Var(..) | Expr::Bool(..) | Expr::Null(..) => {}
                },
            }
        }
        Some(max)
    }));
    r.map_err(|_| format!("front-end-panic: {}", take_panic()))
}

/// The lexer on its own (token spans, progress, its diagnostics' spans) — for texts too long to
/// push through the parser's diagnostics rendering.
pub fn lexer_total(ctx: &Ctx, src: &str) -> Result<FrontStats, (String, String)> {
    ctx.reset();
    let arena = &ctx.main;
    let mut st = FrontStats::default();
    let r = catch_unwind(AssertUnwindSafe(|| -> Result<(), (String, String)> {
        let mut lexer = Lexer::new(src, arena);
        let mut prev_end = 0usize;
        let mut n = 0usize;
        for tok in &mut lexer {
            n += 1;
            if n > src.len() + 2 {
                return Err(("lexer-no-progress".into(), format!("more than {} tokens", src.len() + 2)));
            }
            let (s, e) = (tok.span.start, tok.span.end);
            if let Some(w) = span_ok(src, s, e) {
                return Err((format!("token-{w}"), format!("token {:?} span {s}..{e} len {}", tok.token, src.len())));
            }
            if s < prev_end {
                return Err(("token-spans-not-monotone".into(), format!("token {:?} span {s}..{e} after end {prev_end}", tok.token)));
            }
            prev_end = e;
        }
        st.tokens = n;
        st.diagnostics = lexer.errors.diagnostics.len();
        check_diags(src, &lexer.errors, "lexical")
    }));
    match r {
        Ok(Ok(())) => Ok(st),
        Ok(Err(e)) => Err(e),
        Err(_) => Err((format!("front-end-panic: {}", take_panic()), String::new())),
    }
}

/// Lexer on its own, parser, resolver (only when the parse is clean, as the CLI does), and
/// rendering of whatever diagnostics set results.
pub fn front_total(ctx: &Ctx, src: &str) -> Result<FrontStats, (String, String)> {
    ctx.reset();
    let arena = &ctx.main;
    let mut st = FrontStats::default();
    let r = catch_unwind(AssertUnwindSafe(|| -> Result<(), (String, String)> {
        // 1. the lexer alone
        {
            let mut lexer = Lexer::new(src, arena);
            let mut prev_end = 0usize;
            let mut n = 0usize;
            for tok in &mut lexer {
                n += 1;
                if n > src.len() + 2 {
                    return Err(("lexer-no-progress".into(), format!("more than {} tokens", src.len() + 2)));
                }
                let (s, e) = (tok.span.start, tok.span.end);
                if let Some(w) = span_ok(src, s, e) {
                    return Err((format!("token-{w}"), format!("token {:?} span {s}..{e} len {}", tok.token, src.len())));
                }
                if s < prev_end {
                    return Err(("token-spans-not-monotone".into(), format!("token {:?} span {s}..{e} after end {prev_end}", tok.token)));
                }
                prev_end = e;
            }
            st.tokens = n;
            check_diags(src, &lexer.errors, "lexical")?;
        }
        // 2. parser (+ lexer diagnostics merged)
        let lexer = Lexer::new(src, arena);
        let mut parser = Parser::new(lexer, arena);
        let (root, perr) = parser.parse_program();
        check_diags(src, perr, "syntax")?;
        st.diagnostics = perr.diagnostics.len();
        st.errors = perr.diagnostics.len();
        if !perr.diagnostics.is_empty() {
            let out = perr.render_ansi(src, "f.ns");
            st.rendered_bytes = out.len();
            if std::str::from_utf8(out.as_bytes()).is_err() {
                return Err(("render-invalid-utf8".into(), "syntax".into()));
            }
            return Ok(());
        }
        st.parsed_clean = true;
        // 3. resolver
        let mut resolver = Resolver::new(arena);
        resolver.resolve(root);
        check_diags(src, &resolver.errors, "semantic")?;
        st.diagnostics = resolver.errors.diagnostics.len();
        st.errors = resolver.errors.diagnostics.iter().filter(|d| d.severity == Severity::Error).count();
        if !resolver.errors.diagnostics.is_empty() {
            let out = resolver.errors.render_ansi(src, "f.ns");
            st.rendered_bytes = out.len();
            if std::str::from_utf8(out.as_bytes()).is_err() {
                return Err(("render-invalid-utf8".into(), "semantic".into()));
            }
        }
        Ok(())
    }));
    match r {
        Ok(Ok(())) => Ok(st),
        Ok(Err(e)) => Err(e),
        Err(_) => Err((format!("front-end-panic: {}", take_panic()), String::new())),
    }
}
