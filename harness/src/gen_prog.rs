//! Exact-size, unrankable generator combinators. A `Gen<T>` is a finite indexed family
//! `0..count → T` with a fixed, simplest-first order; nothing is sampled.

use std::sync::Arc;

pub struct Gen<T> {
    pub count: u64,
    f: Arc<dyn Fn(u64) -> T + Send + Sync>,
}

impl<T> Clone for Gen<T> {
    fn clone(&self) -> Self {
        Gen { count: self.count, f: Arc::clone(&self.f) }
    }
}

impl<T: Clone + Send + Sync + 'static> Gen<T> {
    pub fn new(count: u64, f: impl Fn(u64) -> T + Send + Sync + 'static) -> Self {
        Gen { count, f: Arc::new(f) }
    }
    pub fn nth(&self, i: u64) -> T {
        debug_assert!(i < self.count);
        (self.f)(i)
    }
    pub fn of(items: Vec<T>) -> Self {
        let n = items.len() as u64;
        let items = Arc::new(items);
        Gen::new(n, move |i| items[i as usize].clone())
    }
    pub fn one(item: T) -> Self {
        Gen::of(vec![item])
    }
    pub fn empty() -> Self {
        Gen::new(0, |_| unreachable!())
    }
    pub fn map<U: Clone + Send + Sync + 'static>(
        &self,
        g: impl Fn(T) -> U + Send + Sync + 'static,
    ) -> Gen<U> {
        let f = Arc::clone(&self.f);
        Gen::new(self.count, move |i| g(f(i)))
    }
    /// concatenation (disjoint union, in order)
    pub fn or(parts: Vec<Gen<T>>) -> Gen<T> {
        let parts: Vec<Gen<T>> = parts.into_iter().filter(|p| p.count > 0).collect();
        let total: u64 = parts.iter().map(|p| p.count).sum();
        let mut ends = Vec::with_capacity(parts.len());
        let mut acc = 0;
        for p in &parts {
            acc += p.count;
            ends.push(acc);
        }
        Gen::new(total, move |i| {
            let k = ends.partition_point(|&e| e <= i);
            let base = if k == 0 { 0 } else { ends[k - 1] };
            parts[k].nth(i - base)
        })
    }
    /// materialise (small families only)
    pub fn all(&self) -> Vec<T> {
        (0..self.count).map(|i| self.nth(i)).collect()
    }
}

pub fn pair<A, B, T>(a: &Gen<A>, b: &Gen<B>, f: impl Fn(A, B) -> T + Send + Sync + 'static) -> Gen<T>
where
    A: Clone + Send + Sync + 'static,
    B: Clone + Send + Sync + 'static,
    T: Clone + Send + Sync + 'static,
{
    let (a, b) = (a.clone(), b.clone());
    let count = a.count.checked_mul(b.count).expect("generator size overflow");
    // the *second* component varies fastest
    Gen::new(count, move |i| f(a.nth(i / b.count), b.nth(i % b.count)))
}

pub fn triple<A, B, C, T>(
    a: &Gen<A>,
    b: &Gen<B>,
    c: &Gen<C>,
    f: impl Fn(A, B, C) -> T + Send + Sync + 'static,
) -> Gen<T>
where
    A: Clone + Send + Sync + 'static,
    B: Clone + Send + Sync + 'static,
    C: Clone + Send + Sync + 'static,
    T: Clone + Send + Sync + 'static,
{
    let (a, b, c) = (a.clone(), b.clone(), c.clone());
    let count = a.count.checked_mul(b.count).and_then(|x| x.checked_mul(c.count)).expect("overflow");
    Gen::new(count, move |i| {
        let ci = i % c.count;
        let r = i / c.count;
        f(a.nth(r / b.count), b.nth(r % b.count), c.nth(ci))
    })
}

/// all sequences of length exactly `k`
pub fn seq_exact<T: Clone + Send + Sync + 'static>(g: &Gen<T>, k: u32) -> Gen<Vec<T>> {
    let g = g.clone();
    let count = g.count.checked_pow(k).expect("generator size overflow");
    Gen::new(count, move |mut i| {
        let mut v = Vec::with_capacity(k as usize);
        for _ in 0..k {
            v.push(g.nth(i % g.count));
            i /= g.count;
        }
        v.reverse();
        v
    })
}

/// all sequences of length lo..=hi, shortest first
pub fn seq_range<T: Clone + Send + Sync + 'static>(g: &Gen<T>, lo: u32, hi: u32) -> Gen<Vec<T>> {
    Gen::or((lo..=hi).map(|k| seq_exact(g, k)).collect())
}
