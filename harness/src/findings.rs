//! Known findings: committed file /verif/known_findings.json, read-only at run time.

use serde_json::Value as J;

pub struct Finding {
    pub id: String,
    pub property: String,
    pub class: String,
    pub signature: String,
    pub what_fails: String,
    pub status: String,
    pub commit: Option<String>,
}

pub struct Findings {
    pub items: Vec<Finding>,
}

impl Findings {
    pub fn load() -> Findings {
        let path = crate::util::verif_root().join("known_findings.json");
        let mut items = Vec::new();
        if let Ok(text) = std::fs::read_to_string(path)
            && let Ok(j) = serde_json::from_str::<J>(&text)
            && let Some(a) = j["findings"].as_array()
        {
            for f in a {
                let g = |k: &str| f[k].as_str().unwrap_or("").to_string();
                items.push(Finding {
                    id: g("id"),
                    property: g("property"),
                    class: g("class"),
                    signature: g("signature"),
                    what_fails: g("what_fails"),
                    status: g("status"),
                    commit: f["commit"].as_str().map(String::from),
                });
            }
        }
        Findings { items }
    }

    /// An *open* finding suppresses exactly the violation with the same property, failure
    /// class and signature. Fixed entries suppress nothing.
    pub fn match_open(&self, prop: &str, class: &str, signature: &str) -> Option<String> {
        self.items
            .iter()
            .find(|f| {
                f.status == "open" && f.property == prop && f.class == class && f.signature == signature
            })
            .map(|f| f.id.clone())
    }

    pub fn get(&self, id: &str) -> Option<&Finding> {
        self.items.iter().find(|f| f.id == id)
    }
}
