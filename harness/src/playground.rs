//! The playground entry point, compiled natively from /repo/wasm/src/lib.rs (see build.rs).
#![allow(dead_code, unused_imports, clippy::all)]
include!(concat!(env!("OUT_DIR"), "/playground.rs"));
