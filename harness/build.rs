//! Turns the playground entry point (/repo/wasm/src/lib.rs) into a native module so that it
//! can be exercised from its real source: strips the wasm-only attributes and makes
//! `report_html` the identity. If the file changes shape so that this no longer applies,
//! the build fails rather than a stale copy being tested.
use std::path::PathBuf;

fn main() {
    println!("cargo:rerun-if-env-changed=VERIF_REPO");
    let repo = std::env::var("VERIF_REPO").unwrap_or_else(|_| "/repo".into());
    let src_path = &format!("{repo}/wasm/src/lib.rs");
    println!("cargo:rerun-if-changed={src_path}");
    println!("cargo:rerun-if-changed=build.rs");
    let src = std::fs::read_to_string(src_path).expect("read <repo>/wasm/src/lib.rs");
    let mut out = String::new();
    let mut stripped = 0;
    let mut in_report_html = false;
    let mut replaced_body = false;
    for line in src.lines() {
        let t = line.trim();
        if t == "#![cfg(target_family = \"wasm\")]" || t == "use wasm_bindgen::prelude::*;" || t == "#[wasm_bindgen]" {
            stripped += 1;
            continue;
        }
        if t.starts_with("fn report_html(") {
            in_report_html = true;
            out.push_str(line);
            out.push('\n');
            out.push_str("    ansi.to_string()\n");
            replaced_body = true;
            continue;
        }
        if in_report_html {
            if t == "}" {
                in_report_html = false;
                out.push_str(line);
                out.push('\n');
            }
            continue;
        }
        out.push_str(line);
        out.push('\n');
    }
    assert!(stripped >= 3, "wasm/src/lib.rs no longer has the attributes this transformation strips");
    assert!(replaced_body, "wasm/src/lib.rs no longer has fn report_html");
    assert!(out.contains("pub fn run_source(src: &str, filename: &str) -> String"), "run_source signature changed");
    let dest = PathBuf::from(std::env::var("OUT_DIR").unwrap()).join("playground.rs");
    std::fs::write(dest, out).unwrap();
}
