#!/usr/bin/env python3
"""Regenerates /verif/MANIFEST.json from the table below (kept by hand)."""
import json, subprocess
props=[json.loads(l)['id'] for l in open('/verif/properties.jsonl')]
E1="bounded-exhaustive enumeration of a finite program/input space on the real code against an oracle (explicit enumeration, no sampling, no solver)"
CHECKS={
 "C01":("exploration","exhaustive program enumeration vs independent reference interpreter","every program of the stated generator layers is run on the real pipeline and on a reference interpreter that shares no code with it; agreement of printed values and ending","bounds of the generator layers; adopted conventions of DESIGN.md Appendix C; the reference interpreter is the trusted oracle"),
 "C02":("exploration","exhaustive storage-history enumeration, differential between reclamation on/off (two configurations of the real code)","every history of wrapped storage operations up to the stated length is run with the frame arena on and off under both the poisoning and the shipped profile; raw output bytes must agree","Runtime::new(arena, None) is the reclamation-free reference the code documents; bound = history length and alphabet"),
 "C03":("exploration","exhaustive program enumeration, differential between plan on/off, plus executed-statement hook","every function-body x main-sequence combination of the analysis alphabet is run with and without the optimisation plan; executed statement ids are checked against unreachable warnings","bound = body/main lengths and alphabets; stack-overflow endings not compared"),
 "C04":("exploration","exhaustive program enumeration (scope micro-language forests) vs independent reference resolver + interpreter","every forest of up to N items over declare/assign/read/placeholder, block, loop, function definitions and calls, with site-naming tags, compared with a reference that resolves names lexically","N items / nesting 3; bindings the documentation leaves open are not compared"),
 "C05":("exploration","exhaustive mutation-history enumeration vs reference with value-semantics arrays","every sequence of wrapped array operations up to the stated length compared with a reference whose arrays are cloned at every read/store/pass/return","sequence length and alphabet; pop() of empty = null"),
 "C09":("exploration","exhaustive enumeration: scope forests (accept iff reference finds no broken rule) + catalogue of single-rule injections x host contexts","accept/reject decided for every program of the scope micro-language and for every catalogue violation in every host context, with the rejecting category checked where the rule names one","only unambiguous documented rules are demanded; open combinations must only not crash"),
 "C10":("exploration","exhaustive re-layout enumeration with deviation bounding (<=1 / <=2 deviating gaps, uniform layouts, full product for tiny programs, redundant parentheses)","every token-preserving re-layout within the deviation bound of every host program must have the same diagnostics, output and ending as the baseline layout","comments only between tokens; empty gaps only next to punctuation"),
 "C06":("exploration","exhaustive product enumeration position x runtime type x route","every dynamically typed position with every runtime type through every type-hiding route; accepted programs must end normally or with a runtime error","only programs the real front end accepts are judged; aborts attributed through worker isolation"),
 "C11":("model_checking","explicit-state BFS over operation sequences in lock-step with a shadow model (real arena executed on every transition)","all op sequences to the stated depth on real arenas, every transition calling the real allocator and checking the contract against a shadow that tracks live blocks and byte patterns","depth bound and op alphabet; legal API histories only"),
 "C12":("model_checking","explicit-state search of the full reachable state space of small real pools, lock-step with a shadow model","entire reachable state space of pools with 2-3 slots per active class, every transition on the real PoolSet; plus exhaustion/refill of every class of the real 16k-slot pool","<=2 live fallback buffers, 3 active classes; release with the allocated size"),
 "C13":("exploration","exhaustive input enumeration vs reference (naive search / Rust std)","every input tuple within the stated alphabets and lengths for find/replace/split/join/slice/len/trim/case/to_number, incl. all 17- and 18-byte needles over {a,b}","std's str routines are the trusted oracle; nothing beyond the stated alphabets/lengths"),
}
NA={}
def short(c): return subprocess.run(['git','-C','/repo','log','--format=%h','--grep',c,'-1'],capture_output=True,text=True).stdout.strip()
hook_commits=subprocess.run(['git','-C','/repo','log','--format=%h','--grep','^verif-hooks:'],capture_output=True,text=True).stdout.split()
m={
 "version":1,
 "setup_cmd":"./check --build",
 "hooks":{"guard":"cargo feature verif-hooks","enable":"the harness depends on naijascript = { path = \"/repo\", features = [\"verif-hooks\"] }; ./check rebuilds it from /repo's working tree on every invocation","baseline_off_cmd":"cd /repo && cargo test --workspace --no-fail-fast --offline","source_commits":hook_commits[::-1],"add_only":True},
 "engines":[{"name":"vh","path":"harness/","serves_properties":sorted(CHECKS),"kind_free_text":"Rust harness: sharded exhaustive enumeration over isolated worker processes (E1), lock-step BFS against reference models (E2), controlled-scheduler schedule/environment exploration (E3)"}],
 "checks":[{"property_id":k,"quick_cmd":f"./check {k} quick","thorough_cmd":f"./check {k} thorough","evidence_file":f"evidence/{k}.json","replay_cmd_template":f"./check {k} --replay {{path}}","engine":"vh",
   "level_claimed":{"category":v[0],"text":v[2],"design_ref":f"DESIGN.md §5 {k}"},"level_note":v[3],"technique":v[1]} for k,v in sorted(CHECKS.items())],
 "not_applicable":[{"property_id":p,"reason":NA.get(p,"check not built yet in this session (see DESIGN.md §9 build order); not claimed until it runs clean")} for p in props if p not in CHECKS],
 "notes":"see DESIGN.md; known findings in known_findings.json"
}
json.dump(m,open('/verif/MANIFEST.json','w'),indent=1)
print("claimed:",sorted(CHECKS))
