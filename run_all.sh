#!/bin/bash
# ./run_all.sh [quick|thorough] [IDs…] — runs the registered checks one after another and prints one line each
TIER="${1:-quick}"; shift
cd "$(dirname "$0")" || exit 2
IDS="${*:-$(python3 -c "import json;print(' '.join(c['property_id'] for c in json.load(open('MANIFEST.json'))['checks']))")}"
fail=0
for id in $IDS; do
  t0=$(date +%s)
  out=$(./check "$id" "$TIER" 2>&1); rc=$?
  t1=$(date +%s)
  echo "$id rc=$rc ${t1}s-${t0}s=$((t1-t0))s :: $(echo "$out" | tail -1)"
  [ $rc -ne 0 ] && { fail=1; echo "$out" | grep -E "VIOLATION|MACHINERY|class:" | head -6; }
done
exit $fail
